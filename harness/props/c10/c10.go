// Package c10: drain honours PDBs, do-not-disrupt and ordering until the deadline.
//
// Each case grows 1-2 nodes through the real pipeline (Provisioner.Schedule -> CreateNodeClaims -> nodeclaim
// lifecycle controller + emulated kubelet), binds 3-12 pods of all kinds per node (priorities, owners, grace
// periods, do-not-disrupt forms, tolerations, terminating / stuck / terminal states), adds PodDisruptionBudgets,
// deletes the NodeClaim or the Node and then drives the real node termination controller (or Terminator.Drain
// directly), the real eviction Queue reconciler, the real nodeclaim lifecycle controller, the virtual clock
// (swept across deadline-minus-grace boundaries) and cluster actors (kubelet reaping, users deleting /
// replacing / re-annotating pods, the termination deadline moved later or earlier) in a PRNG-chosen order,
// with one or two phases in which drain passes and queue reconciles run concurrently in goroutines.
//
// Every pod removal call Karpenter issues is judged from the API event log (pod state before the call, virtual
// time of the call, grace period) by four monitors that re-implement the statement independently:
//
//	M1 removal mode: eviction sub-resource, or Delete with grace >= 1s, only on a NodeClaim with a
//	   terminationGracePeriod and a deadline D, not before D minus the pod's own (remaining) grace period;
//	M2 never an eviction of an active do-not-disrupt pod, a static pod or a pod tolerating the disrupted taint;
//	M3 tier ordering of what gets enqueued (Queue.Has after each drain pass) and evicted;
//	M4 a Delete never uses a grace period that reveals a deadline later than the one the pod was enqueued under.
package c10

import (
	"context"
	"fmt"
	"hash/fnv"
	"math/rand"
	"reflect"
	"runtime"
	"sort"
	"strings"
	"sync"
	"time"
	"unsafe"

	corev1 "k8s.io/api/core/v1"
	policyv1 "k8s.io/api/policy/v1"
	metav1 "k8s.io/apimachinery/pkg/apis/meta/v1"
	"k8s.io/apimachinery/pkg/types"
	"sigs.k8s.io/controller-runtime/pkg/client"
	"sigs.k8s.io/controller-runtime/pkg/event"

	v1 "sigs.k8s.io/karpenter/pkg/apis/v1"
	"sigs.k8s.io/karpenter/pkg/controllers/node/termination"
	"sigs.k8s.io/karpenter/pkg/controllers/node/termination/terminator"

	"verif/gen"
	"verif/mon"
	"verif/props/common"
	"verif/props/reg"
	"verif/world"
)

func cases(tier string) int {
	if tier == "thorough" {
		return 5000
	}
	return 300
}

var bg = context.Background()

type nodeSt struct {
	Name    string `json:"name"`
	Claim   string `json:"claim"`
	HasTGP  bool   `json:"hasTGP"`
	TGP     string `json:"tgp,omitempty"`
	Flow    string `json:"flow"` // claim-deleted | node-deleted
	passes  int    // drain passes issued on a deleting node
	deleted bool
}

// residency: one maximal interval during which Queue.Has(pod) was observed true.
type residency struct {
	EnqD        *time.Time // deadline of the drain pass that enqueued the pod (nil: none)
	MinPassD    *time.Time // earliest deadline of any drain pass on the pod's node during the residency
	EnqSeq      int        // API log length at the start of the enqueueing pass
	EnqT        time.Time  // virtual time of the enqueueing pass
	Exempt      bool       // force-delete eligible (statement, lenient at the boundary) when enqueued
	LaterSeen   bool       // a later pass on the node carried a later deadline than EnqD
	EarlierSeen bool
}

// phase describes a concurrent phase to the judge: clock and deadlines are constant, no actor runs.
type phase struct {
	startSeq int
	inQ      map[types.UID]bool
	ended    map[types.UID]bool
	D        map[string]*time.Time
}

type removal struct {
	UID  types.UID
	Verb string
	Err  string
}

type cs struct {
	r    *mon.Report
	e    *world.Env
	rng  *rand.Rand
	idx  int
	q    *terminator.Queue
	term *terminator.Terminator
	ctrl *termination.Controller
	src  reflect.Value // the queue's source channel (what controller-runtime's channel source would read)

	nodes  []*nodeSt
	byName map[string]*nodeSt
	specs  map[string]*podSpec // by pod name (latest incarnation)
	born   map[types.UID]int
	res    map[types.UID]*residency
	stale  map[types.NamespacedName]*corev1.Pod
	stuck  map[string]bool
	podSeq int

	wmu        sync.Mutex // guards work/processing/dirty in concurrent phases
	work       []types.NamespacedName
	processing map[types.NamespacedName]bool
	dirty      map[types.NamespacedName]bool

	scanned  int
	last     []removal
	trace    []string
	removals []string
	sig      map[string]bool
	desc     map[string]any
}

func (c *cs) inc(k string) { c.r.Inc(k) }

func (c *cs) caseDesc() map[string]any {
	d := map[string]any{}
	for k, v := range c.desc {
		d[k] = v
	}
	var ps []podSpec
	for _, n := range common.SortedKeys(c.specs) {
		ps = append(ps, *c.specs[n])
	}
	d["pods"] = ps
	d["nodes"] = c.nodes
	t := c.trace
	if len(t) > 120 {
		t = t[len(t)-120:]
	}
	d["trace"] = append([]string(nil), t...)
	return d
}

func (c *cs) step(format string, a ...any) {
	c.trace = append(c.trace, fmt.Sprintf("%s ", c.e.Clock.Now().Sub(world.Epoch))+fmt.Sprintf(format, a...))
}

// ---- store helpers (harness side: un-intercepted client) ----

func (c *cs) podsOn(node string) []*corev1.Pod {
	l := &corev1.PodList{}
	_ = c.e.API.Raw.List(bg, l, client.MatchingFields{"spec.nodeName": node})
	out := make([]*corev1.Pod, 0, len(l.Items))
	for i := range l.Items {
		out = append(out, &l.Items[i])
	}
	sort.Slice(out, func(i, j int) bool { return out[i].Name < out[j].Name })
	return out
}

func (c *cs) allPods() []*corev1.Pod {
	var out []*corev1.Pod
	for _, n := range c.nodes {
		out = append(out, c.podsOn(n.Name)...)
	}
	return out
}

func (c *cs) claimOf(nd *nodeSt) *v1.NodeClaim {
	nc := &v1.NodeClaim{}
	if c.e.API.Raw.Get(bg, types.NamespacedName{Name: nd.Claim}, nc) != nil {
		return nil
	}
	return nc
}

// deadlineNow: the NodeClaim's termination deadline as annotated right now (nil: none / claim gone).
func (c *cs) deadlineNow(nd *nodeSt) *time.Time {
	nc := c.claimOf(nd)
	if nc == nil {
		return nil
	}
	s, ok := nc.Annotations[terminationTSKey]
	if !ok {
		return nil
	}
	t, err := time.Parse(time.RFC3339, s)
	if err != nil {
		return nil
	}
	return &t
}

// ---- the queue's work list (emulates the controller-runtime workqueue fed by the queue's channel source) ----

func sourceChan(q *terminator.Queue) reflect.Value {
	f := reflect.ValueOf(q).Elem().FieldByName("source")
	return reflect.NewAt(f.Type(), unsafe.Pointer(f.UnsafeAddr())).Elem()
}

// pump moves every event of the source channel into the work list (deduplicated like a workqueue). Callers
// hold wmu in concurrent phases.
func (c *cs) pump() {
	for {
		v, ok := c.src.TryRecv()
		if !ok {
			return
		}
		ev := v.Interface().(event.TypedGenericEvent[*corev1.Pod])
		key := client.ObjectKeyFromObject(ev.Object)
		c.r.Inc("queue_source_events")
		if c.processing[key] {
			c.dirty[key] = true
			continue
		}
		c.addWork(key)
	}
}

func (c *cs) addWork(key types.NamespacedName) {
	for _, k := range c.work {
		if k == key {
			return
		}
	}
	c.work = append(c.work, key)
}

// ---- judging of removal calls ----

func podBrief(p *corev1.Pod, now time.Time) map[string]any {
	m := map[string]any{"name": p.Name, "uid": p.UID, "node": p.Spec.NodeName, "tier": tierOf(p), "prio": p.Spec.PriorityClassName,
		"grace": p.Spec.TerminationGracePeriodSeconds, "phase": p.Status.Phase, "protected": protectedWhy(p, now)}
	if p.DeletionTimestamp != nil {
		m["deletionTimestamp"] = p.DeletionTimestamp.Time.Sub(world.Epoch).String()
	}
	if v, ok := p.Annotations[doNotDisruptKey]; ok {
		m["dnd"] = v
	}
	if p.Status.StartTime != nil {
		m["start"] = p.Status.StartTime.Time.Sub(world.Epoch).String()
	}
	for _, o := range p.OwnerReferences {
		m["owner"] = o.Kind
	}
	return m
}

func rel(t *time.Time) string {
	if t == nil {
		return "none"
	}
	return t.Sub(world.Epoch).String()
}

func (c *cs) scan(ph *phase) {
	evs := c.e.API.LogSince(c.scanned)
	c.scanned += len(evs)
	for i := range evs {
		ev := evs[i]
		if ev.Kind != "Pod" || ev.Caller == "" {
			continue
		}
		switch ev.Verb {
		case "evict", "delete":
			c.judge(&ev, ph)
		case "deleteallof":
			c.r.Violate("pods-removed-by-deleteallof", "Karpenter removed pods with DeleteAllOf instead of the eviction API", c.caseDesc(), map[string]any{"caller": ev.Caller})
		default:
			c.inc("other_pod_writes_by_karpenter")
		}
	}
}

func (c *cs) judge(ev *world.Event, ph *phase) {
	r := c.r
	pod, _ := ev.Before.(*corev1.Pod)
	if pod == nil {
		c.inc("removal_calls_on_absent_pod")
		return
	}
	if strings.Contains(ev.Err, "uid precondition") {
		// the call targeted a previous incarnation of this name; the stored pod is untouched
		c.inc("removal_calls_refused_by_uid_precondition")
		return
	}
	if ev.Injected {
		return
	}
	now := ev.VTime
	ok := ev.Err == ""
	c.last = append(c.last, removal{pod.UID, ev.Verb, ev.Err})
	nd := c.byName[pod.Spec.NodeName]
	wit := func(extra map[string]any) map[string]any {
		w := map[string]any{"verb": ev.Verb, "caller": ev.Caller, "stack": ev.Stack, "err": ev.Err, "now": now.Sub(world.Epoch).String(), "pod": podBrief(pod, now), "grace": ev.Grace}
		for k, v := range extra {
			w[k] = v
		}
		return w
	}
	if nd == nil || nd.passes == 0 {
		r.Violate("removal-on-node-never-drained", fmt.Sprintf("%s of pod %s on node %q which was never passed to Drain", ev.Verb, pod.Name, pod.Spec.NodeName), c.caseDesc(), wit(nil))
		return
	}
	// which residency does this call belong to
	res := c.res[pod.UID]
	var dNow *time.Time
	if ph != nil {
		dNow = ph.D[nd.Name]
		if !ph.inQ[pod.UID] || ph.ended[pod.UID] {
			res = &residency{EnqD: dNow, MinPassD: dNow, EnqSeq: ph.startSeq, EnqT: now}
			res.Exempt = dNow != nil && directDeleteAllowedAt(pod, *dNow, now)
		}
		if ok {
			ph.ended[pod.UID] = true
		}
	} else {
		dNow = c.deadlineNow(nd)
	}
	if res == nil {
		// sequential mode: Queue.Has was false after the previous step, yet the pod is being removed
		c.inc("removals_of_pods_not_observed_in_queue")
		res = &residency{EnqD: dNow, MinPassD: dNow, EnqSeq: c.e.API.LogLen(), EnqT: now}
		res.Exempt = dNow != nil && directDeleteAllowedAt(pod, *dNow, now)
	}
	c.removals = append(c.removals, fmt.Sprintf("%s %s %s tier=%d grace=%v err=%q D=%s enqD=%s", now.Sub(world.Epoch), ev.Verb, pod.Name, tierOf(pod), graceStr(ev.Grace), short(ev.Err), rel(dNow), rel(res.EnqD)))

	switch ev.Verb {
	case "evict":
		c.inc("m2_eviction_calls_judged")
		c.sig["evict"] = true
		switch {
		case ok:
			c.inc("evictions_succeeded")
		case strings.Contains(ev.Err, "disruption budget"):
			c.inc("evictions_refused_by_pdb_429")
			c.sig["pdb429"] = true
		case strings.Contains(ev.Err, "more than one PodDisruptionBudget"):
			c.inc("evictions_refused_multiple_pdbs_500")
			c.sig["pdb500"] = true
		default:
			c.inc("evictions_other_error")
		}
		// M2
		if why := protectedWhy(pod, now); why != "" {
			r.Violate("evicted-"+why, fmt.Sprintf("eviction API called for pod %s which is protected (%s)", pod.Name, why), c.caseDesc(), wit(nil))
		}
		if ev.Grace != nil && *ev.Grace < 1 {
			r.Violate("eviction-with-zero-grace", fmt.Sprintf("eviction of pod %s carries grace period %d", pod.Name, *ev.Grace), c.caseDesc(), wit(nil))
		}
		// M4 (eviction side): once now is past (enqueued deadline - own grace) the queue must delete, not evict;
		// an eviction call after that instant means the pod is being handled under a later (or no) deadline.
		if res.EnqD != nil && pod.DeletionTimestamp == nil && pod.Spec.TerminationGracePeriodSeconds != nil {
			c.inc("m4_evictions_judged_against_enqueued_deadline")
			if thr := res.EnqD.Add(-podGrace(pod)); now.After(thr) {
				r.Violate("eviction-after-threshold-of-enqueued-deadline", fmt.Sprintf("pod %s was enqueued under deadline %s (own grace %s) but is still sent to the eviction API %s after deadline-grace: handled under a later or no deadline", pod.Name, rel(res.EnqD), podGrace(pod), now.Sub(thr)),
					c.caseDesc(), wit(map[string]any{"deadline_now": rel(dNow), "deadline_enqueued": rel(res.EnqD)}))
			}
			if dNow == nil || res.LaterSeen || dNow.After(*res.EnqD) {
				c.inc("m4_evictions_after_deadline_moved_later_or_removed")
			}
		}
		// M3 at the eviction: no evictable pod of an earlier tier that was already there when this pod was enqueued
		c.inc("m3_evictions_judged")
		if !res.Exempt {
			var blockers []any
			for _, o := range c.podsOn(nd.Name) {
				if o.UID != pod.UID && tierOf(o) < tierOf(pod) && evictable(o, now) && c.born[o.UID] < res.EnqSeq && !pastThreshold(o, res.EnqD, res.EnqT) {
					blockers = append(blockers, podBrief(o, now))
				}
			}
			if len(blockers) > 0 {
				r.Violate("evicted-later-tier-while-earlier-tier-evictable", fmt.Sprintf("pod %s (tier %d) sent to the eviction API while %d evictable pod(s) of an earlier tier were still on node %s", pod.Name, tierOf(pod), len(blockers), nd.Name),
					c.caseDesc(), wit(map[string]any{"earlier_tier_pods": blockers}))
			}
			if tierOf(pod) > 0 {
				c.inc("m3_later_tier_evictions_with_no_earlier_tier_left")
			}
		}
	case "delete":
		c.inc("m1_direct_deletes_judged")
		c.sig["delete"] = true
		if ok {
			c.inc("direct_deletes_succeeded")
		}
		// M1: never a zero grace period
		eff := podGrace(pod)
		if ev.Grace != nil {
			eff = time.Duration(*ev.Grace) * time.Second
		}
		if eff < time.Second {
			r.Violate("direct-delete-with-zero-grace", fmt.Sprintf("pod %s deleted directly with an effective grace period of %s", pod.Name, eff), c.caseDesc(), wit(nil))
		}
		// M1: only when the NodeClaim has a termination grace period (and therefore a deadline)
		if !nd.HasTGP {
			r.Violate("direct-delete-without-nodeclaim-tgp", fmt.Sprintf("pod %s deleted directly although NodeClaim %s has no terminationGracePeriod", pod.Name, nd.Claim), c.caseDesc(), wit(nil))
			return
		}
		dEff := minTime(minTime(dNow, res.EnqD), res.MinPassD)
		if dEff == nil {
			r.Violate("direct-delete-without-deadline", fmt.Sprintf("pod %s deleted directly although no termination deadline was ever in effect for it", pod.Name), c.caseDesc(), wit(nil))
			return
		}
		// M1: not before deadline minus the pod's own grace period
		own := ownRemaining(pod, now)
		off := now.Sub(dEff.Add(-own))
		if off < 0 {
			r.Violate("direct-delete-before-deadline-minus-grace", fmt.Sprintf("pod %s deleted directly %s before (deadline %s - own grace %s)", pod.Name, -off, rel(dEff), own), c.caseDesc(),
				wit(map[string]any{"deadline_now": rel(dNow), "deadline_enqueued": rel(res.EnqD), "deadline_min_pass": rel(res.MinPassD)}))
		}
		switch {
		case off <= time.Second:
			c.inc("m1_deletes_within_1s_after_threshold")
		case off <= 5*time.Second:
			c.inc("m1_deletes_within_5s_after_threshold")
		}
		if pod.DeletionTimestamp != nil {
			c.inc("m1_deletes_of_already_terminating_pods")
			c.sig["delete-terminating"] = true
		}
		if why := protectedWhy(pod, now); why != "" {
			c.inc("m1_deadline_deletes_of_" + why)
			c.sig["delete-protected"] = true
		}
		if tierOf(pod) > 0 {
			c.inc("m1_deadline_deletes_of_later_tiers")
		}
		// M4: the grace period must not reveal a deadline later than the one the pod was enqueued under
		if res.EnqD != nil && ev.Grace != nil {
			c.inc("m4_deletes_judged")
			allowed := graceCeil(*res.EnqD, now)
			if *ev.Grace > allowed {
				r.Violate("delete-grace-reveals-later-deadline", fmt.Sprintf("pod %s was enqueued under deadline %s but deleted with grace %ds (> %ds): handled under a later deadline", pod.Name, rel(res.EnqD), *ev.Grace, allowed), c.caseDesc(),
					wit(map[string]any{"deadline_now": rel(dNow), "deadline_enqueued": rel(res.EnqD)}))
			}
			if res.LaterSeen || (dNow != nil && dNow.After(*res.EnqD)) {
				c.inc("m4_deletes_after_deadline_moved_later")
				c.sig["deadline-later"] = true
			}
			if res.EarlierSeen || (dNow != nil && dNow.Before(*res.EnqD)) {
				c.inc("m4_deletes_after_deadline_moved_earlier")
				c.sig["deadline-earlier"] = true
			}
		}
	}
}

// pastThreshold: the pod is force-delete eligible under deadline d at time t (statement reading, inclusive at
// the boundary so that the ordering monitor never depends on which side of the instant Karpenter puts it).
func pastThreshold(p *corev1.Pod, d *time.Time, t time.Time) bool {
	return d != nil && directDeleteAllowedAt(p, *d, t)
}

func graceStr(g *int64) string {
	if g == nil {
		return "nil"
	}
	return fmt.Sprint(*g)
}

func short(s string) string {
	if len(s) > 48 {
		return s[:48]
	}
	return s
}

// observe reconciles the residency table with Queue.Has. passNode/passD describe the drain pass that just ran
// (nil passNode: the step was not a drain pass); in a concurrent phase ph carries the per-node deadlines.
func (c *cs) observe(passNode *nodeSt, passD *time.Time, passSeq int, pre []*corev1.Pod, ph *phase) {
	now := c.e.Clock.Now()
	live := map[types.UID]bool{}
	for _, p := range c.allPods() {
		live[p.UID] = true
		has := c.q.Has(p)
		rs := c.res[p.UID]
		nd := c.byName[p.Spec.NodeName]
		if ph != nil && ph.ended[p.UID] && rs != nil {
			// the residency known before the phase ended inside it (a removal call succeeded)
			delete(c.res, p.UID)
			rs = nil
		}
		switch {
		case has && rs == nil:
			var d *time.Time
			seq := passSeq
			switch {
			case ph != nil:
				d, seq = ph.D[nd.Name], ph.startSeq
			case passNode != nil && passNode == nd:
				d = passD
			default:
				c.r.Inconcl("case %d: pod %s appeared in the eviction queue outside a drain pass on its node", c.idx, p.Name)
				seq = c.e.API.LogLen()
			}
			rs = &residency{EnqD: d, MinPassD: d, EnqSeq: seq, EnqT: now}
			rs.Exempt = d != nil && directDeleteAllowedAt(p, *d, now)
			c.res[p.UID] = rs
			c.inc("queue_enqueues_observed")
			if passNode != nil && ph == nil {
				c.judgeEnqueue(p, rs, nd, pre, now)
			}
		case !has && rs != nil:
			delete(c.res, p.UID)
		case has && rs != nil && ((passNode != nil && passNode == nd) || ph != nil):
			d := passD
			if ph != nil {
				d = ph.D[nd.Name]
			}
			rs.MinPassD = minTime(rs.MinPassD, d)
			if d == nil && rs.EnqD != nil {
				rs.LaterSeen = true // a pass without any deadline
			}
			if d != nil && rs.EnqD != nil {
				if d.After(*rs.EnqD) {
					rs.LaterSeen = true
				} else if d.Before(*rs.EnqD) {
					rs.EarlierSeen = true
				}
			}
		}
	}
	for uid := range c.res {
		if !live[uid] {
			delete(c.res, uid)
		}
	}
}

// judgeEnqueue is M3 at the drain pass: a newly enqueued pod that is not force-delete eligible must not have
// an evictable pod of an earlier tier next to it.
func (c *cs) judgeEnqueue(p *corev1.Pod, rs *residency, nd *nodeSt, pre []*corev1.Pod, now time.Time) {
	c.inc("m3_enqueues_judged")
	var blockers []any
	for _, o := range pre {
		if o.UID != p.UID && tierOf(o) < tierOf(p) && evictable(o, now) {
			if pastThreshold(o, rs.EnqD, now) {
				// the earlier-tier pod is itself handed to the queue for deletion at the deadline: it no longer gates
				c.inc("m3_earlier_tier_pods_past_threshold_not_gating")
				continue
			}
			blockers = append(blockers, podBrief(o, now))
		}
	}
	if rs.Exempt {
		if len(blockers) > 0 {
			c.inc("m3_deadline_eligible_pods_enqueued_across_tiers")
			c.sig["cross-tier-at-deadline"] = true
		}
		return
	}
	if tierOf(p) > 0 {
		c.inc("m3_later_tier_enqueues_judged")
		c.sig[fmt.Sprintf("tier%d", tierOf(p))] = true
	}
	if len(blockers) > 0 {
		c.r.Violate("enqueued-later-tier-while-earlier-tier-evictable", fmt.Sprintf("drain pass enqueued pod %s (tier %d, not past its deadline threshold) while %d evictable pod(s) of an earlier tier wait on node %s", p.Name, tierOf(p), len(blockers), nd.Name),
			c.caseDesc(), map[string]any{"pod": podBrief(p, now), "earlier_tier_pods": blockers, "deadline": rel(rs.EnqD), "now": now.Sub(world.Epoch).String()})
	}
}

// ---- steps ----

func (c *cs) getNode(nd *nodeSt) *corev1.Node {
	n := &corev1.Node{}
	if c.e.API.Raw.Get(bg, types.NamespacedName{Name: nd.Name}, n) != nil {
		return nil
	}
	return n
}

// drainStep: one reconcile of the node termination controller (or a direct Terminator.Drain with the deadline
// the controller would parse), followed by the Queue.Has observation.
func (c *cs) drainStep(nd *nodeSt, direct bool) {
	node := c.getNode(nd)
	if node == nil {
		return
	}
	if node.DeletionTimestamp == nil {
		direct = false
	}
	pre := c.podsOn(nd.Name)
	d := c.deadlineNow(nd)
	seq := c.e.API.LogLen()
	t0 := c.e.Clock.Now()
	if node.DeletionTimestamp != nil {
		nd.passes++
		c.inc("drain_passes")
		c.passAntecedents(pre, d, t0)
	}
	var err error
	if direct {
		c.step("drain-direct %s D=%s", nd.Name, rel(d))
		err = c.term.Drain(c.e.Ctx, node, d)
	} else {
		c.step("node-reconcile %s D=%s", nd.Name, rel(d))
		_, err = c.ctrl.Reconcile(c.e.Ctx, node)
	}
	if err != nil && !terminator.IsNodeDrainError(err) {
		c.inc("drain_step_errors")
	}
	if !c.e.Clock.Now().Equal(t0) {
		c.r.Inconcl("case %d: virtual clock moved inside a drain pass", c.idx)
	}
	c.pump()
	c.scan(nil)
	c.observe(nd, d, seq, pre, nil)
}

// passAntecedents counts what a drain pass had in front of it (evidence that the monitors' antecedents fire).
func (c *cs) passAntecedents(pre []*corev1.Pod, d *time.Time, now time.Time) {
	tiers := map[int]bool{}
	for _, p := range pre {
		switch protectedWhy(p, now) {
		case "static-pod":
			c.inc("m2_drain_passes_over_static_pod")
			c.sig["static"] = true
		case "pod-tolerating-disrupted-taint":
			c.inc("m2_drain_passes_over_tolerating_pod")
			c.sig["tolerating"] = true
		case "active-do-not-disrupt":
			if !isTerminal(p) && p.DeletionTimestamp == nil {
				c.inc("m2_drain_passes_over_active_do_not_disrupt_pod")
				c.sig["dnd"] = true
			}
		}
		if evictable(p, now) && !pastThreshold(p, d, now) {
			tiers[tierOf(p)] = true
		}
	}
	if len(tiers) >= 2 {
		c.inc("m3_drain_passes_with_several_tiers_evictable")
		c.sig["multi-tier"] = true
	}
}

// queueStep delivers one key of the work list to the real Queue.Reconcile (what AsReconciler would do: read the
// pod by name, drop the key when it is gone), optionally with the cached object of a replaced pod.
func (c *cs) queueStep() {
	c.pump()
	if len(c.work) == 0 {
		return
	}
	i := c.rng.Intn(len(c.work))
	key := c.work[i]
	c.work = append(c.work[:i], c.work[i+1:]...)
	var pod *corev1.Pod
	if st := c.stale[key]; st != nil && c.rng.Intn(2) == 0 {
		pod = st
		delete(c.stale, key)
		c.inc("queue_reconciles_with_stale_object_of_replaced_pod")
	} else {
		pod = &corev1.Pod{}
		if c.e.API.Raw.Get(bg, key, pod) != nil {
			c.inc("queue_keys_dropped_pod_gone")
			return
		}
	}
	now := c.e.Clock.Now()
	wasIn := c.q.Has(pod)
	rs := c.res[pod.UID]
	c.step("queue-reconcile %s uid=%s", key.Name, pod.UID)
	c.last = nil
	res, err := c.q.Reconcile(c.e.Ctx, pod)
	c.inc("queue_reconciles")
	if err != nil || res.Requeue || res.RequeueAfter > 0 {
		c.addWork(key)
		c.inc("queue_requeues")
	}
	c.scan(nil)
	// antecedents
	removed := len(c.last) > 0
	if wasIn {
		if why := protectedWhy(pod, now); why != "" && !isTerminal(pod) && pod.DeletionTimestamp == nil {
			evicted := false
			for _, l := range c.last {
				if l.Verb == "evict" {
					evicted = true
				}
			}
			if !evicted {
				c.inc("m2_reconciles_of_protected_pod_without_eviction")
			}
		}
		if rs != nil && rs.EnqD != nil {
			off := now.Sub(minTime(rs.EnqD, rs.MinPassD).Add(-ownRemaining(pod, now)))
			deleted := false
			for _, l := range c.last {
				if l.Verb == "delete" {
					deleted = true
				}
			}
			b := "far_before"
			switch {
			case off >= -time.Second && off < 0:
				b = "1s_before"
			case off == 0:
				b = "exactly_at"
			case off > 0 && off <= time.Second:
				b = "1s_after"
			case off > time.Second:
				b = "far_after"
			}
			c.inc(fmt.Sprintf("m1_reconcile_%s_threshold(deleted=%v)", b, deleted))
		}
	} else if !removed {
		c.inc("queue_reconciles_of_pod_not_in_queue_noop")
	}
	c.observe(nil, nil, 0, nil, nil)
}

func (c *cs) clockStep() {
	now := c.e.Clock.Now()
	var targets []time.Time
	add := func(t time.Time) {
		for _, d := range []time.Duration{-time.Second, 0, 500 * time.Millisecond, time.Second} {
			if x := t.Add(d); x.After(now) {
				targets = append(targets, x)
			}
		}
	}
	for _, nd := range c.nodes {
		ds := []*time.Time{c.deadlineNow(nd)}
		pods := c.podsOn(nd.Name)
		for _, p := range pods {
			if rs := c.res[p.UID]; rs != nil && rs.EnqD != nil {
				ds = append(ds, rs.EnqD)
			}
		}
		for _, d := range ds {
			if d == nil {
				continue
			}
			add(*d)
			for _, p := range pods {
				if p.DeletionTimestamp == nil {
					add(d.Add(-podGrace(p)))
				}
			}
		}
		for _, p := range pods {
			if p.DeletionTimestamp != nil {
				add(p.DeletionTimestamp.Time)
				add(p.DeletionTimestamp.Time.Add(stuckTerminatingSlop))
			}
			if v := p.Annotations[doNotDisruptKey]; p.Status.StartTime != nil {
				if d, err := time.ParseDuration(v); err == nil && d > 0 {
					add(p.Status.StartTime.Time.Add(d))
				}
			}
		}
	}
	sort.Slice(targets, func(i, j int) bool { return targets[i].Before(targets[j]) })
	var to time.Time
	switch {
	case len(targets) > 0 && c.rng.Intn(4) != 0:
		k := len(targets)
		if k > 6 {
			k = 6
		}
		to = targets[c.rng.Intn(k)]
	default:
		to = now.Add([]time.Duration{time.Second, 2 * time.Second, 5 * time.Second, 20 * time.Second, 90 * time.Second}[c.rng.Intn(5)])
	}
	c.e.Clock.SetTime(to)
	c.step("clock -> %s", to.Sub(world.Epoch))
	c.inc("clock_moves")
}

func (c *cs) lifecycleStep(nd *nodeSt) {
	c.step("lifecycle-reconcile %s", nd.Claim)
	_, _ = c.e.ReconcileClaim(nd.Claim)
	c.inc("lifecycle_reconciles")
	c.scan(nil)
}

// annotStep moves the termination deadline later or earlier (only on NodeClaims that have a terminationGracePeriod).
func (c *cs) annotStep(nd *nodeSt, forceDir int) {
	nc := c.claimOf(nd)
	cur := c.deadlineNow(nd)
	if nc == nil || cur == nil || !nd.HasTGP {
		return
	}
	if forceDir == 0 && c.rng.Intn(6) == 0 {
		// the annotation is removed (the lifecycle controller re-adds deletionTimestamp+TGP at its next reconcile)
		delete(nc.Annotations, terminationTSKey)
		if c.e.API.Raw.Update(bg, nc) == nil {
			c.step("deadline annotation of %s removed", nd.Claim)
			c.inc("deadline_annotation_removed")
		}
		return
	}
	delta := []time.Duration{10 * time.Second, 20 * time.Second, 45 * time.Second, 5 * time.Minute, 2500 * time.Millisecond}[c.rng.Intn(5)]
	dir := forceDir
	if dir == 0 {
		dir = 1 - 2*c.rng.Intn(2)
	}
	nd2 := cur.Add(time.Duration(dir) * delta)
	nc.Annotations[terminationTSKey] = nd2.UTC().Format(time.RFC3339Nano)
	if err := c.e.API.Raw.Update(bg, nc); err != nil {
		return
	}
	c.step("deadline %s moved %+d*%s -> %s", nd.Claim, dir, delta, rel(&nd2))
	if dir > 0 {
		c.inc("deadline_moved_later")
	} else {
		c.inc("deadline_moved_earlier")
	}
}

func (c *cs) removeFromStore(p *corev1.Pod) {
	cur := &corev1.Pod{}
	if c.e.API.Raw.Get(bg, client.ObjectKeyFromObject(p), cur) != nil {
		return
	}
	if len(cur.Finalizers) > 0 {
		cur.Finalizers = nil
		_ = c.e.API.Raw.Update(bg, cur)
	}
	_ = client.IgnoreNotFound(c.e.API.Raw.Delete(bg, cur))
}

// recreateStep: a pod is deleted and recreated under the same name with a new UID (and new attributes).
func (c *cs) recreateStep() {
	pods := c.allPods()
	if len(pods) == 0 {
		return
	}
	// prefer pods that sit in the queue
	var inq []*corev1.Pod
	for _, p := range pods {
		if c.q.Has(p) {
			inq = append(inq, p)
		}
	}
	if len(inq) > 0 && c.rng.Intn(4) != 0 {
		pods = inq
	}
	old := pods[c.rng.Intn(len(pods))]
	sp := c.specs[old.Name]
	if sp == nil {
		return
	}
	nd := c.byName[old.Spec.NodeName]
	c.stale[client.ObjectKeyFromObject(old)] = old.DeepCopy()
	c.removeFromStore(old)
	ns := randomPodSpec(c.rng, old.Name, sp.Node)
	ns.Gen = sp.Gen + 1
	ns.State = "running"
	*sp = ns
	np := buildPod(ns, nd.Name, c.e.Clock.Now())
	c.e.Apply(np)
	c.born[np.UID] = c.e.API.LogLen()
	c.step("pod %s replaced: uid %s -> %s (tier %d, protected=%q)", old.Name, old.UID, np.UID, tierOf(np), protectedWhy(np, c.e.Clock.Now()))
	c.inc("pods_replaced_under_same_name")
	if c.q.Has(old) {
		c.inc("pods_replaced_while_enqueued")
		c.sig["replaced"] = true
	}
	c.observe(nil, nil, 0, nil, nil)
}

// mutateStep: users change what is mutable on a live pod / PDB.
func (c *cs) mutateStep() {
	pods := c.allPods()
	if len(pods) == 0 {
		return
	}
	p := pods[c.rng.Intn(len(pods))]
	switch c.rng.Intn(5) {
	case 0, 1: // add / change do-not-disrupt
		if p.Annotations == nil {
			p.Annotations = map[string]string{}
		}
		v := dnds[c.rng.Intn(len(dnds))]
		p.Annotations[doNotDisruptKey] = v
		if c.e.API.Raw.Update(bg, p) == nil {
			c.step("pod %s do-not-disrupt=%q", p.Name, v)
			c.inc("mutations_dnd_set")
		}
	case 2: // remove do-not-disrupt
		if _, ok := p.Annotations[doNotDisruptKey]; ok {
			delete(p.Annotations, doNotDisruptKey)
			if c.e.API.Raw.Update(bg, p) == nil {
				c.step("pod %s do-not-disrupt removed", p.Name)
				c.inc("mutations_dnd_removed")
			}
		}
	case 3: // the pod finishes
		if !isTerminal(p) && p.DeletionTimestamp == nil {
			p.Status.Phase = []corev1.PodPhase{corev1.PodSucceeded, corev1.PodFailed}[c.rng.Intn(2)]
			if c.e.API.Raw.Status().Update(bg, p) == nil || c.e.API.Raw.Update(bg, p) == nil {
				c.step("pod %s became %s", p.Name, p.Status.Phase)
				c.inc("mutations_pod_terminal")
			}
		}
	case 4: // a blocking PDB is relaxed or removed
		l := &policyv1.PodDisruptionBudgetList{}
		_ = c.e.API.Raw.List(bg, l)
		if len(l.Items) > 0 {
			b := &l.Items[c.rng.Intn(len(l.Items))]
			if c.rng.Intn(2) == 0 {
				_ = c.e.API.Raw.Delete(bg, b)
				c.step("pdb %s deleted", b.Name)
			} else {
				b.Spec.MinAvailable, b.Spec.MaxUnavailable = nil, iop("100%")
				_ = c.e.API.Raw.Update(bg, b)
				c.step("pdb %s relaxed", b.Name)
			}
			c.inc("mutations_pdb")
		}
	}
}

// userDelete: somebody else deletes a pod (own or custom grace period); logged with an empty Caller.
func (c *cs) userDelete(p *corev1.Pod, grace *int64) {
	var opts []client.DeleteOption
	if grace != nil {
		opts = append(opts, client.GracePeriodSeconds(*grace))
	}
	_ = c.e.API.Client.Delete(bg, p.DeepCopy(), opts...)
	c.step("user deletes pod %s grace=%s", p.Name, graceStr(grace))
	c.inc("user_pod_deletes")
}

func (c *cs) userDeleteStep() {
	var live []*corev1.Pod
	for _, p := range c.allPods() {
		if p.DeletionTimestamp == nil {
			live = append(live, p)
		}
	}
	if len(live) == 0 {
		return
	}
	p := live[c.rng.Intn(len(live))]
	var g *int64
	switch c.rng.Intn(3) {
	case 0:
		x := int64(3600)
		g = &x
	case 1:
		x := int64(5)
		g = &x
	}
	c.userDelete(p, g)
}

func (c *cs) reapStep() {
	n := c.e.KubeletReapPods(c.stuck)
	c.step("kubelet reaps %d", n)
	c.r.Count("pods_reaped_by_kubelet", n)
	c.observe(nil, nil, 0, nil, nil)
}

// ---- concurrent phase ----

func (c *cs) concurrentPhase() {
	e := c.e
	c.pump()
	ph := &phase{startSeq: e.API.LogLen(), inQ: map[types.UID]bool{}, ended: map[types.UID]bool{}, D: map[string]*time.Time{}}
	for _, p := range c.allPods() {
		ph.inQ[p.UID] = c.q.Has(p)
	}
	var drainers []*nodeSt
	for _, nd := range c.nodes {
		ph.D[nd.Name] = c.deadlineNow(nd)
		if n := c.getNode(nd); n != nil && n.DeletionTimestamp != nil {
			drainers = append(drainers, nd)
			pre := c.podsOn(nd.Name)
			c.passAntecedents(pre, ph.D[nd.Name], e.Clock.Now())
		}
	}
	if len(drainers) == 0 {
		return
	}
	c.step("concurrent phase: %d drainers", len(drainers))
	t0 := e.Clock.Now()
	e.API.Yield = true
	var wg sync.WaitGroup
	passes := 2 + c.rng.Intn(3)
	for _, nd := range drainers {
		nd.passes += passes
		direct := nd.passes > passes && c.rng.Intn(2) == 0
		wg.Add(1)
		go func(nd *nodeSt, direct bool) {
			defer wg.Done()
			for i := 0; i < passes; i++ {
				node := c.getNode(nd)
				if node == nil {
					return
				}
				if direct {
					_ = c.term.Drain(e.Ctx, node, ph.D[nd.Name])
				} else {
					_, _ = c.ctrl.Reconcile(e.Ctx, node)
				}
				c.r.Inc("concurrent_drain_passes")
				c.wmu.Lock()
				c.pump()
				c.wmu.Unlock()
				runtime.Gosched()
			}
		}(nd, direct)
	}
	workers := 2 + c.rng.Intn(4)
	iters := 4 + c.rng.Intn(5)
	for w := 0; w < workers; w++ {
		wg.Add(1)
		wr := rand.New(rand.NewSource(c.rng.Int63()))
		go func() {
			defer wg.Done()
			for i := 0; i < iters; i++ {
				c.wmu.Lock()
				c.pump()
				if len(c.work) == 0 {
					c.wmu.Unlock()
					runtime.Gosched()
					continue
				}
				k := wr.Intn(len(c.work))
				key := c.work[k]
				c.work = append(c.work[:k], c.work[k+1:]...)
				c.processing[key] = true
				c.wmu.Unlock()

				pod := &corev1.Pod{}
				requeue := false
				if e.API.Raw.Get(bg, key, pod) == nil {
					res, err := c.q.Reconcile(e.Ctx, pod)
					requeue = err != nil || res.Requeue || res.RequeueAfter > 0
					c.r.Inc("concurrent_queue_reconciles")
				}
				c.wmu.Lock()
				delete(c.processing, key)
				if requeue || c.dirty[key] {
					delete(c.dirty, key)
					c.addWork(key)
				}
				c.wmu.Unlock()
			}
		}()
	}
	wg.Wait()
	e.API.Yield = false
	c.pump()
	c.inc("concurrent_phases")
	c.sig["concurrent"] = true
	if !e.Clock.Now().Equal(t0) {
		c.r.Inconcl("case %d: virtual clock moved inside a concurrent phase", c.idx)
	}
	c.scan(ph)
	c.observe(nil, nil, 0, nil, ph)
}

// ---- case ----

func run(r *mon.Report, tier string, idx int, rng *rand.Rand) {
	cfg := common.DefaultScenarioCfg()
	cfg.MinPools, cfg.MaxPools, cfg.MaxDaemons, cfg.Unmanaged = 1, 1, 0, false
	cfg.Pool.PTaint, cfg.Pool.PRequirement, cfg.Pool.PCustomLabel = 0, 0.2, 0
	cfg.Catalog.PUnavailable = 0
	cfg.Catalog.GPU = false
	s := common.Build(rng, cfg)
	e := s.Env
	c := &cs{r: r, e: e, rng: rng, idx: idx, byName: map[string]*nodeSt{}, specs: map[string]*podSpec{}, born: map[types.UID]int{}, res: map[types.UID]*residency{},
		stale: map[types.NamespacedName]*corev1.Pod{}, stuck: map[string]bool{}, processing: map[types.NamespacedName]bool{}, dirty: map[types.NamespacedName]bool{},
		sig: map[string]bool{}, desc: map[string]any{"case": idx}}
	r.Eval()

	// NodeClaim terminationGracePeriod comes from the NodePool template through the real provisioner
	tgp := time.Duration(0)
	if rng.Intn(10) < 7 {
		tgp = []time.Duration{20 * time.Second, 45 * time.Second, 2 * time.Minute, 15 * time.Minute}[rng.Intn(4)]
		s.Pools[0].Spec.Template.Spec.TerminationGracePeriod = &metav1.Duration{Duration: tgp}
		e.Apply(s.Pools[0])
	}
	nNodes := 1 + rng.Intn(2)
	var seed []*corev1.Pod
	for i := 0; i < nNodes; i++ {
		seed = append(seed, gen.Pod(fmt.Sprintf("seed-%d", i), 100, 64, gen.WithHostPort(8000, corev1.ProtocolTCP, "")))
	}
	s.Grow(rng, seed, []world.Stage{world.StageInitialized})
	for _, p := range seed { // the seed pods only exist to make the provisioner create the nodes
		c.removeFromStore(p)
	}
	ncs := &v1.NodeClaimList{}
	_ = e.API.Raw.List(bg, ncs)
	nodes := &corev1.NodeList{}
	_ = e.API.Raw.List(bg, nodes)
	for i := range ncs.Items {
		nc := &ncs.Items[i]
		for j := range nodes.Items {
			n := &nodes.Items[j]
			if n.Spec.ProviderID != "" && n.Spec.ProviderID == nc.Status.ProviderID {
				nd := &nodeSt{Name: n.Name, Claim: nc.Name, HasTGP: nc.Spec.TerminationGracePeriod != nil}
				if nd.HasTGP {
					nd.TGP = nc.Spec.TerminationGracePeriod.Duration.String()
				}
				c.nodes = append(c.nodes, nd)
				c.byName[nd.Name] = nd
			}
		}
	}
	if len(c.nodes) == 0 {
		r.Inconcl("case %d: the pipeline produced no node", idx)
		return
	}
	if (tgp > 0) != c.nodes[0].HasTGP {
		r.Inconcl("case %d: NodePool terminationGracePeriod %s did not reach the NodeClaim", idx, tgp)
		return
	}
	c.q = terminator.NewQueue(e.Clock, e.API.Client, e.Recorder)
	c.term = terminator.NewTerminator(e.Clock, e.API.Client, c.q, e.Recorder)
	c.ctrl = termination.NewController(e.Clock, e.API.Client, e.Provider, c.term, e.Recorder)
	c.src = sourceChan(c.q)

	// pods
	e.Clock.Step(time.Duration(rng.Intn(3)) * 500 * time.Millisecond)
	for ni, nd := range c.nodes {
		n := 3 + rng.Intn(10)
		for i := 0; i < n; i++ {
			c.podSeq++
			ps := randomPodSpec(rng, fmt.Sprintf("w%d", c.podSeq), ni)
			c.specs[ps.Name] = &ps
			p := buildPod(ps, nd.Name, e.Clock.Now())
			e.Apply(p)
			c.born[p.UID] = e.API.LogLen()
		}
	}
	mode := pdbMode[rng.Intn(len(pdbMode))]
	c.desc["pdb"] = mode
	c.desc["tgp"] = tgp.String()
	for _, b := range buildPDBs(mode) {
		e.Apply(b)
	}
	// pre-existing terminating / stuck / terminal pods
	var stuckPods bool
	for _, p := range c.allPods() {
		switch c.specs[p.Name].State {
		case "terminating":
			c.userDelete(p, nil)
		case "terminating-long":
			g := int64(3600)
			c.userDelete(p, &g)
		case "stuck":
			g := int64(1)
			c.userDelete(p, &g)
			c.stuck[p.Name] = true
			stuckPods = true
		case "succeeded", "failed":
			p.Status.Phase = map[string]corev1.PodPhase{"succeeded": corev1.PodSucceeded, "failed": corev1.PodFailed}[c.specs[p.Name].State]
			if e.API.Raw.Status().Update(bg, p) != nil {
				_ = e.API.Raw.Update(bg, p)
			}
		}
	}
	if stuckPods && rng.Intn(2) == 0 {
		e.Clock.Step(62 * time.Second) // already past the one-minute allowance when the drain starts
	}

	// deletion: the NodeClaim (lifecycle controller annotates the deadline and deletes the Node) or the Node
	// (termination controller deletes the NodeClaim; the deadline appears once the lifecycle controller runs)
	for _, nd := range c.nodes {
		if rng.Intn(10) < 7 {
			nd.Flow = "claim-deleted"
			if nc := c.claimOf(nd); nc != nil {
				_ = e.API.Raw.Delete(bg, nc)
			}
			if rng.Intn(5) != 0 {
				c.lifecycleStep(nd)
			}
		} else {
			nd.Flow = "node-deleted"
			if n := c.getNode(nd); n != nil {
				_ = e.API.Raw.Delete(bg, n)
			}
		}
		c.step("%s: %s", nd.Flow, nd.Name)
		if rng.Intn(4) == 0 && c.deadlineNow(nd) != nil {
			c.annotStep(nd, 0) // a deadline with sub-second / shifted value from the start
		}
	}
	c.scanned = e.API.LogLen()

	// the schedule
	steps := 30 + rng.Intn(50)
	concAt := map[int]bool{5 + rng.Intn(20): true}
	if rng.Intn(2) == 0 {
		concAt[25+rng.Intn(30)] = true
	}
	for i := 0; i < steps; i++ {
		if concAt[i] {
			c.concurrentPhase()
		}
		nd := c.nodes[rng.Intn(len(c.nodes))]
		switch x := rng.Intn(100); {
		case x < 28:
			c.drainStep(nd, nd.passes > 0 && rng.Intn(10) < 3)
		case x < 62:
			c.queueStep()
		case x < 74:
			c.clockStep()
		case x < 81:
			c.reapStep()
		case x < 87:
			c.annotStep(nd, 0)
		case x < 90:
			c.recreateStep()
		case x < 94:
			c.mutateStep()
		case x < 98:
			c.lifecycleStep(nd)
		default:
			c.userDeleteStep()
		}
		// macro: deadline moved later while pods wait in the queue, then the clock crosses the old threshold
		if rng.Intn(40) == 0 && len(c.res) > 0 && nd.HasTGP {
			c.annotStep(nd, +1)
			c.drainStep(nd, false)
		}
	}
	c.scan(nil)
	c.observe(nil, nil, 0, nil, nil)

	h := fnv.New64a()
	for _, t := range c.trace {
		h.Write([]byte(t))
	}
	r.DistinctAdd("schedules", fmt.Sprintf("%016x", h.Sum64()))
	if len(c.sig) > 0 {
		// coarse classes of what the monitors had in front of them (fine flags are merged so that the count of
		// distinct signatures stays meaningful)
		merge := map[string]string{"pdb429": "pdb-refusal", "pdb500": "pdb-refusal", "dnd": "protected-present", "static": "protected-present", "tolerating": "protected-present",
			"tier1": "later-tier-enqueued", "tier2": "later-tier-enqueued", "tier3": "later-tier-enqueued", "deadline-later": "deadline-moved", "deadline-earlier": "deadline-moved",
			"delete-terminating": "delete", "concurrent": ""}
		coarse := map[string]bool{}
		for k := range c.sig {
			if m, ok := merge[k]; ok {
				k = m
			}
			if k != "" {
				coarse[k] = true
			}
		}
		r.Sig("%s|tgp=%v|nodes=%d", strings.Join(common.SortedKeys(coarse), "+"), tgp > 0, len(c.nodes))
	}
	if r.WantSample() && c.sig["delete"] && c.sig["evict"] {
		d := c.caseDesc()
		d["removal_calls"] = c.removals
		r.Sample(d)
	}
}

func init() {
	reg.Register(&reg.Prop{
		ID: "C10", Level: "exploration", Race: true, RaceIsViolation: true,
		Rule:  "each case = 1-2 nodes grown through the real provisioner + nodeclaim lifecycle (NodeClaim with/without terminationGracePeriod 20s..15m), 3-12 bound pods per node drawn from {priority class x owner ReplicaSet/DaemonSet/StatefulSet/Node/none x grace nil/0/1/30/600 x do-not-disrupt true/duration/invalid x tolerations of the disrupted taint x running/terminating/terminating with long grace/stuck/Succeeded/Failed}, a PDB layout {none, blocking, allowing one, two matching, minAvailable 100%, blocking all}; NodeClaim or Node deleted; then 30-80 PRNG-ordered steps of {node termination Reconcile or direct Terminator.Drain, eviction Queue.Reconcile of a queued key (fresh or stale object of a replaced pod), clock jump onto deadline-minus-grace / deadline / deletionTimestamp+1m / do-not-disrupt expiry boundaries (-1s,0,+0.5s,+1s), kubelet reap, deadline annotation moved later/earlier, pod replaced under the same name, do-not-disrupt/PDB/phase mutation, lifecycle reconcile, user delete} with 1-2 phases in which drain passes and 2-5 queue workers run concurrently. Non-trivial = Karpenter issued at least one judged removal call or a monitor antecedent fired; distinct by (monitor antecedents seen x TGP x PDB layout x node count).",
		Cases: cases, Run: run,
		RaceFrac: map[string]float64{"quick": 0.34, "thorough": 0.1},
		MinObserved: map[string]int{
			"m2_eviction_calls_judged":                           100,
			"m1_direct_deletes_judged":                           50,
			"m2_reconciles_of_protected_pod_without_eviction":    20,
			"m2_drain_passes_over_static_pod":                    20,
			"m2_drain_passes_over_tolerating_pod":                20,
			"m3_drain_passes_with_several_tiers_evictable":       50,
			"m3_later_tier_enqueues_judged":                      20,
			"m4_deletes_judged":                                  50,
			"m4_deletes_after_deadline_moved_later":              20,
			"m4_evictions_judged_against_enqueued_deadline":      50,
			"m4_evictions_after_deadline_moved_later_or_removed": 20,
			"m1_deletes_within_1s_after_threshold":               10,
			"m1_reconcile_1s_before_threshold(deleted=false)":    10,
			"m1_reconcile_exactly_at_threshold(deleted=false)":   10,
			"m1_deletes_of_already_terminating_pods":             20,
			"m1_deadline_deletes_of_active-do-not-disrupt":       20,
			"m3_deadline_eligible_pods_enqueued_across_tiers":    10,
			"pods_replaced_while_enqueued":                       20,
			"evictions_refused_multiple_pdbs_500":                10,
			"evictions_refused_by_pdb_429":                       10,
			"concurrent_queue_reconciles":                        50,
		},
	})
}
