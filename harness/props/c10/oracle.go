package c10

// Independent re-implementation of the pod classes the C10 statement speaks about. Nothing here calls
// into sigs.k8s.io/karpenter/pkg/utils/pod or the terminator package: tiers, "protected" pods and
// force-delete eligibility are derived from the property statement and the Kubernetes API conventions
// (toleration matching, ownerReferences, deletionTimestamp = instant the grace period ends).

import (
	"math"
	"time"

	corev1 "k8s.io/api/core/v1"
)

const (
	disruptedTaintKey    = "karpenter.sh/disrupted"
	doNotDisruptKey      = "karpenter.sh/do-not-disrupt"
	terminationTSKey     = "karpenter.sh/nodeclaim-termination-timestamp"
	defaultPodGraceSecs  = int64(30) // API default when spec.terminationGracePeriodSeconds is unset
	stuckTerminatingSlop = time.Minute
)

// toleratesDisrupted: does the pod tolerate the taint {karpenter.sh/disrupted, value "", NoSchedule}?
// Kubernetes toleration semantics: empty effect matches every effect; empty key with Exists matches every
// taint; operator ""/Equal compares values; Exists ignores the value.
func toleratesDisrupted(p *corev1.Pod) bool {
	for _, t := range p.Spec.Tolerations {
		if t.Effect != "" && t.Effect != corev1.TaintEffectNoSchedule {
			continue
		}
		if t.Key != "" && t.Key != disruptedTaintKey {
			continue
		}
		switch t.Operator {
		case corev1.TolerationOpExists:
			return true
		case "", corev1.TolerationOpEqual:
			if t.Value == "" { // the taint carries no value
				return true
			}
		}
	}
	return false
}

func ownedBy(p *corev1.Pod, apiVersion, kind string) bool {
	for _, o := range p.OwnerReferences {
		if o.APIVersion == apiVersion && o.Kind == kind {
			return true
		}
	}
	return false
}

func isStatic(p *corev1.Pod) bool { return ownedBy(p, "v1", "Node") }
func isDaemon(p *corev1.Pod) bool { return ownedBy(p, "apps/v1", "DaemonSet") }

func isCritical(p *corev1.Pod) bool {
	return p.Spec.PriorityClassName == "system-cluster-critical" || p.Spec.PriorityClassName == "system-node-critical"
}

// tierOf: 0 non-critical non-daemon, 1 non-critical daemon, 2 critical non-daemon, 3 critical daemon.
func tierOf(p *corev1.Pod) int {
	t := 0
	if isCritical(p) {
		t += 2
	}
	if isDaemon(p) {
		t++
	}
	return t
}

func isTerminal(p *corev1.Pod) bool {
	return p.Status.Phase == corev1.PodSucceeded || p.Status.Phase == corev1.PodFailed
}

// dndActive: "true", or a positive Go duration counted from status.startTime (unknown start = still active).
// Anything else is not a valid protection and counts as absent.
func dndActive(p *corev1.Pod, now time.Time) bool {
	v, ok := p.Annotations[doNotDisruptKey]
	if !ok {
		return false
	}
	if v == "true" {
		return true
	}
	d, err := time.ParseDuration(v)
	if err != nil || d <= 0 {
		return false
	}
	if p.Status.StartTime == nil {
		return true
	}
	return now.Before(p.Status.StartTime.Time.Add(d))
}

// protectedWhy names the reason the pod must never be *evicted* ("" = may be evicted).
func protectedWhy(p *corev1.Pod, now time.Time) string {
	switch {
	case isStatic(p):
		return "static-pod"
	case toleratesDisrupted(p):
		return "pod-tolerating-disrupted-taint"
	case dndActive(p, now):
		return "active-do-not-disrupt"
	}
	return ""
}

// evictable: a pod Karpenter is expected to remove through the eviction API and has not removed yet.
func evictable(p *corev1.Pod, now time.Time) bool {
	return !isTerminal(p) && p.DeletionTimestamp == nil && protectedWhy(p, now) == ""
}

func podGrace(p *corev1.Pod) time.Duration {
	g := defaultPodGraceSecs
	if p.Spec.TerminationGracePeriodSeconds != nil {
		g = *p.Spec.TerminationGracePeriodSeconds
	}
	return time.Duration(g) * time.Second
}

// ownRemaining: how long the pod would keep running if left to its own grace period: the full grace period
// for a pod that is not terminating, the time left until its deletionTimestamp for a terminating one.
func ownRemaining(p *corev1.Pod, now time.Time) time.Duration {
	if p.DeletionTimestamp != nil {
		return p.DeletionTimestamp.Time.Sub(now)
	}
	return podGrace(p)
}

// directDeleteAllowedAt: "no earlier than the node deadline minus the pod's own grace period".
func directDeleteAllowedAt(p *corev1.Pod, deadline time.Time, now time.Time) bool {
	return !now.Before(deadline.Add(-ownRemaining(p, now)))
}

// graceCeil: the largest grace period (whole seconds, at least 1) that still ends at the deadline, rounding
// in the pod's favour so that the oracle does not depend on Karpenter's rounding direction.
func graceCeil(deadline, now time.Time) int64 {
	g := int64(math.Ceil(deadline.Sub(now).Seconds()))
	if g < 1 {
		g = 1
	}
	return g
}

func minTime(a, b *time.Time) *time.Time {
	if a == nil {
		return b
	}
	if b == nil {
		return a
	}
	if b.Before(*a) {
		return b
	}
	return a
}
