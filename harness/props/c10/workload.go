package c10

import (
	"fmt"
	"math/rand"
	"time"

	corev1 "k8s.io/api/core/v1"
	policyv1 "k8s.io/api/policy/v1"
	metav1 "k8s.io/apimachinery/pkg/apis/meta/v1"
	"k8s.io/apimachinery/pkg/types"
	"k8s.io/apimachinery/pkg/util/intstr"

	"verif/gen"
)

// podSpec is the serialisable description of one generated pod (witness / replay).
type podSpec struct {
	Name      string `json:"name"`
	Gen       int    `json:"gen"` // incarnation under this name (UID differs per incarnation)
	Node      int    `json:"node"`
	Prio      string `json:"prio,omitempty"`
	Owner     string `json:"owner,omitempty"`
	Grace     *int64 `json:"grace"`
	DND       string `json:"dnd,omitempty"`
	StartAgoS int    `json:"startAgoS"` // -1: status.startTime unset
	Tol       string `json:"tol,omitempty"`
	State     string `json:"state"` // running | terminating | terminating-long | stuck | succeeded | failed
	App       string `json:"app,omitempty"`
}

var (
	prios   = []string{"", "", "", "high-priority", "system-cluster-critical", "system-node-critical"}
	owners  = []string{"ReplicaSet", "ReplicaSet", "DaemonSet", "DaemonSet", "StatefulSet", "", "Node"}
	graces  = []int64{0, 1, 30, 30, 600}
	dnds    = []string{"true", "true", "30s", "5m", "1h", "false", "-3m", "0s", "abc"}
	starts  = []int{0, 10, 240, 7200, -1}
	tols    = []string{"exists-key", "exists-all", "key-noschedule", "equal-empty", "key-noexecute", "equal-val", "other-key"}
	states  = []string{"terminating", "terminating-long", "stuck", "succeeded", "failed"}
	apps    = []string{"a", "b", "c", ""}
	pdbMode = []string{"none", "block-a", "allow1-a", "two-b", "block-a+two-b", "minavail-a", "block-all"}
)

func randomPodSpec(rng *rand.Rand, name string, node int) podSpec {
	ps := podSpec{Name: name, Node: node, State: "running"}
	ps.Prio = prios[rng.Intn(len(prios))]
	ps.Owner = owners[rng.Intn(len(owners))]
	if rng.Intn(12) != 0 {
		g := graces[rng.Intn(len(graces))]
		ps.Grace = &g
	}
	if rng.Intn(100) < 35 {
		ps.DND = dnds[rng.Intn(len(dnds))]
	}
	ps.StartAgoS = starts[rng.Intn(len(starts))]
	if rng.Intn(100) < 22 {
		ps.Tol = tols[rng.Intn(len(tols))]
	}
	if rng.Intn(100) < 22 {
		ps.State = states[rng.Intn(len(states))]
	}
	ps.App = apps[rng.Intn(len(apps))]
	return ps
}

func toleration(kind string) *corev1.Toleration {
	switch kind {
	case "exists-key":
		return &corev1.Toleration{Key: disruptedTaintKey, Operator: corev1.TolerationOpExists}
	case "exists-all":
		return &corev1.Toleration{Operator: corev1.TolerationOpExists}
	case "key-noschedule":
		return &corev1.Toleration{Key: disruptedTaintKey, Operator: corev1.TolerationOpExists, Effect: corev1.TaintEffectNoSchedule}
	case "equal-empty":
		return &corev1.Toleration{Key: disruptedTaintKey, Operator: corev1.TolerationOpEqual}
	case "key-noexecute":
		return &corev1.Toleration{Key: disruptedTaintKey, Operator: corev1.TolerationOpExists, Effect: corev1.TaintEffectNoExecute}
	case "equal-val":
		return &corev1.Toleration{Key: disruptedTaintKey, Operator: corev1.TolerationOpEqual, Value: "x"}
	case "other-key":
		return &corev1.Toleration{Key: "dedicated", Operator: corev1.TolerationOpExists}
	}
	return nil
}

// buildPod materialises the running pod (the terminating / terminal states are produced afterwards by actors).
func buildPod(ps podSpec, nodeName string, now time.Time) *corev1.Pod {
	p := gen.Pod(ps.Name, 10, 16)
	p.UID = types.UID(fmt.Sprintf("pod-%s-g%d", ps.Name, ps.Gen))
	p.Spec.NodeName = nodeName
	p.Spec.PriorityClassName = ps.Prio
	p.Spec.TerminationGracePeriodSeconds = ps.Grace
	if ps.Owner != "" {
		gen.WithOwner(ps.Owner, "own-"+ps.Name)(p)
	}
	if ps.DND != "" {
		gen.WithAnnotation(doNotDisruptKey, ps.DND)(p)
	}
	if t := toleration(ps.Tol); t != nil {
		p.Spec.Tolerations = append(p.Spec.Tolerations, *t)
	}
	if ps.App != "" {
		p.Labels["app"] = ps.App
	}
	p.Status.Phase = corev1.PodRunning
	if ps.StartAgoS >= 0 {
		st := metav1.NewTime(now.Add(-time.Duration(ps.StartAgoS) * time.Second))
		p.Status.StartTime = &st
	}
	p.Status.Conditions = []corev1.PodCondition{
		{Type: corev1.PodScheduled, Status: corev1.ConditionTrue},
		{Type: corev1.PodReady, Status: corev1.ConditionTrue},
	}
	return p
}

func pdb(name string, sel map[string]string, maxUnavailable, minAvailable *intstr.IntOrString) *policyv1.PodDisruptionBudget {
	ls := &metav1.LabelSelector{MatchLabels: sel}
	if sel == nil {
		ls = &metav1.LabelSelector{} // selects every pod of the namespace
	}
	return &policyv1.PodDisruptionBudget{
		ObjectMeta: metav1.ObjectMeta{Name: name, Namespace: "default"},
		Spec:       policyv1.PodDisruptionBudgetSpec{Selector: ls, MaxUnavailable: maxUnavailable, MinAvailable: minAvailable},
	}
}

func ios(i int) *intstr.IntOrString    { v := intstr.FromInt32(int32(i)); return &v }
func iop(s string) *intstr.IntOrString { v := intstr.FromString(s); return &v }

func buildPDBs(mode string) []*policyv1.PodDisruptionBudget {
	a, b := map[string]string{"app": "a"}, map[string]string{"app": "b"}
	switch mode {
	case "block-a":
		return []*policyv1.PodDisruptionBudget{pdb("pdb-a", a, ios(0), nil)}
	case "allow1-a":
		return []*policyv1.PodDisruptionBudget{pdb("pdb-a", a, ios(1), nil)}
	case "two-b":
		return []*policyv1.PodDisruptionBudget{pdb("pdb-b1", b, ios(5), nil), pdb("pdb-b2", b, iop("100%"), nil)}
	case "block-a+two-b":
		return []*policyv1.PodDisruptionBudget{pdb("pdb-a", a, ios(0), nil), pdb("pdb-b1", b, ios(5), nil), pdb("pdb-b2", b, iop("100%"), nil)}
	case "minavail-a":
		return []*policyv1.PodDisruptionBudget{pdb("pdb-a", a, nil, iop("100%"))}
	case "block-all":
		return []*policyv1.PodDisruptionBudget{pdb("pdb-all", nil, ios(0), nil)}
	}
	return nil
}
