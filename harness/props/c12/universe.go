package c12

import (
	"fmt"
	"math"
	"sort"
	"strconv"
	"strings"

	"verif/oracle"
)

// ---- atoms: one node-selector expression (operator + argument list) on an implied key ----

type atom struct {
	Op   string   `json:"op"`
	Vals []string `json:"vals,omitempty"`
}

func (a atom) String() string {
	if len(a.Vals) == 0 && (a.Op == "Exists" || a.Op == "DoesNotExist") {
		return a.Op
	}
	return a.Op + "[" + strings.Join(a.Vals, ",") + "]"
}

func (a atom) isBound() bool { return a.Op == "Gt" || a.Op == "Lt" || a.Op == "Gte" || a.Op == "Lte" }

// emptyList: In[] / NotIn[] — rejected by the Kubernetes API and by upstream label selectors; the
// "truth" for them is ambiguous (plain semantics vs. "invalid selector matches nothing"), so they are
// checked on the value level only (where both readings coincide for In[]) and never in set-level checks.
func (a atom) emptyList() bool { return (a.Op == "In" || a.Op == "NotIn") && len(a.Vals) == 0 }

type conj []atom

func (c conj) String() string {
	if len(c) == 0 {
		return "<undefined>"
	}
	s := make([]string, len(c))
	for i, a := range c {
		s[i] = a.String()
	}
	return strings.Join(s, " AND ")
}

// shape: sorted operator names, used inside violation keys so that a new failing class stands out.
func (c conj) shape() string {
	if len(c) == 0 {
		return "undef"
	}
	s := make([]string, len(c))
	for i, a := range c {
		s[i] = a.Op
	}
	sort.Strings(s)
	return strings.Join(s, "+")
}

// class: a coarse semantic class of the conjunction (bounded number of violation keys).
func (c conj) class() string {
	if len(c) == 0 {
		return "undef"
	}
	in, notin, bound, ex, dne := false, false, false, false, false
	for _, a := range c {
		switch {
		case a.Op == "In":
			in = true
		case a.Op == "NotIn":
			notin = true
		case a.Op == "Exists":
			ex = true
		case a.Op == "DoesNotExist":
			dne = true
		case a.isBound():
			bound = true
		}
	}
	ne, _ := nonEmptyExact(c)
	abs := admitsAbsent(c)
	switch {
	case !ne && !abs:
		return "unsat"
	case !ne && abs:
		return "absent-only"
	case in:
		return "finite"
	case bound && notin:
		return "range+excl"
	case bound:
		return "range"
	case ex && notin:
		return "exists+excl"
	case ex:
		return "exists"
	case notin && !dne:
		return "notin"
	}
	return "other"
}

func (c conj) hasBound() bool {
	for _, a := range c {
		if a.isBound() {
			return true
		}
	}
	return false
}

func pairShape(a, b conj) string {
	x, y := a.shape(), b.shape()
	if x > y {
		x, y = y, x
	}
	return x + "&" + y
}

// ---- small fixed-width bitset over the probe universe (last used bit = "label absent") ----

const bitWords = 8

type bits [bitWords]uint64

func (b *bits) set(i int)     { b[i/64] |= 1 << uint(i%64) }
func (b bits) has(i int) bool { return b[i/64]&(1<<uint(i%64)) != 0 }
func (b bits) and(c bits) bits {
	var o bits
	for i := range b {
		o[i] = b[i] & c[i]
	}
	return o
}
func (b bits) zero() bool {
	for _, w := range b {
		if w != 0 {
			return false
		}
	}
	return true
}
func (b bits) without(i int) bits { b[i/64] &^= 1 << uint(i%64); return b }
func (b bits) count() int {
	n := 0
	for _, w := range b {
		for ; w != 0; w &= w - 1 {
			n++
		}
	}
	return n
}

// ---- probe universe ----

const (
	maxInt64S   = "9223372036854775807"
	maxInt64m1S = "9223372036854775806"
	minInt64S   = "-9223372036854775808"
	minInt64p1S = "-9223372036854775807"
)

func addSafe(t int64, d int64) (int64, bool) {
	if d > 0 && t > math.MaxInt64-d {
		return 0, false
	}
	if d < 0 && t < math.MinInt64-d {
		return 0, false
	}
	return t + d, true
}

// padded returns a non-canonical decimal spelling of x (leading zeros) that is not in taken.
// Kubernetes (strconv.ParseInt) and Karpenter (strconv.Atoi) both read it as x, while In/NotIn compare
// the raw strings — so these spellings are distinct admitted label values.
func padded(x int64, taken map[string]bool) string {
	digits := strconv.FormatInt(x, 10)
	sign := ""
	if strings.HasPrefix(digits, "-") {
		sign, digits = "-", digits[1:]
	}
	z := "00"
	for {
		s := sign + z + digits
		if !taken[s] {
			return s
		}
		z += "0"
	}
}

// buildProbes implements the probe universe for a collection of atoms from which conjunctions of at
// most maxConj atoms will be formed: every mentioned value; the integers at and next to every bound
// (±1, ±2) and every mentioned integer (±1); K+1 consecutive integers above each lower bound and below
// each upper bound, K = the largest number of values a conjunction can exclude; for every such integer
// also a zero-padded spelling that no atom mentions; fresh non-integer strings; negative integers;
// out-of-int64-range digit strings and a few odd spellings. (The absent label is a separate bit.)
//
// Completeness: atoms distinguish present values only by raw-string equality with a mentioned value
// and by comparing the parsed integer with a bound. Hence every conjunction that admits some string
// admits a mentioned value, or an unmentioned spelling of an integer in [lo,hi] (the padded spelling
// of lo is a probe), or — without bounds — the fresh non-integer string.
func buildProbes(atoms []atom, maxExcl int) []string {
	mentioned := map[string]bool{}
	ints := map[int64]bool{}
	addRange := func(t, from, to int64) {
		for d := from; d <= to; d++ {
			if x, ok := addSafe(t, d); ok {
				ints[x] = true
			}
		}
	}
	k := int64(maxExcl + 1)
	for _, a := range atoms {
		if a.isBound() {
			t, err := strconv.ParseInt(a.Vals[0], 10, 64)
			if err != nil {
				continue
			}
			addRange(t, -2, 2)
			if a.Op == "Gt" || a.Op == "Gte" {
				addRange(t, 0, k+1)
			} else {
				addRange(t, -k-1, 0)
			}
			continue
		}
		for _, v := range a.Vals {
			mentioned[v] = true
			if x, err := strconv.ParseInt(v, 10, 64); err == nil {
				addRange(x, -1, 1)
			}
		}
	}
	for _, x := range []int64{-7, 0, 1000003, math.MaxInt64, math.MinInt64} {
		ints[x] = true
	}
	out := map[string]bool{}
	for v := range mentioned {
		out[v] = true
	}
	for x := range ints {
		out[strconv.FormatInt(x, 10)] = true
		out[padded(x, mentioned)] = true
	}
	fresh := "zz-fresh"
	for mentioned[fresh] {
		fresh += "z"
	}
	out[fresh] = true
	for _, s := range []string{"+1", " 1", "1.0", "0x1", "1e3", "9223372036854775808", "-9223372036854775809", ""} {
		out[s] = true
	}
	l := make([]string, 0, len(out))
	for s := range out {
		l = append(l, s)
	}
	sort.Strings(l)
	if len(l)+1 > bitWords*64 {
		panic(fmt.Sprintf("c12: probe universe too large: %d", len(l)))
	}
	return l
}

// oracleBits: plain operator semantics (oracle.Admits) of one atom on every probe + the absent label.
func oracleBits(a atom, probes []string) bits {
	var b bits
	for i, v := range probes {
		if oracle.Admits(a.Op, a.Vals, v, true) {
			b.set(i)
		}
	}
	if oracle.Admits(a.Op, a.Vals, "", false) {
		b.set(len(probes))
	}
	return b
}

func oracleBitsOne(a atom, v string, present bool) bool {
	return oracle.Admits(a.Op, a.Vals, v, present)
}

// ---- exact (symbolic) non-emptiness of a conjunction over the infinite domain of label strings ----

// nonEmptyExact decides whether some *present* label value is admitted by every atom.
//   - str:   over all strings (what Kubernetes and Requirement.Has range over): a bounded co-finite set
//     lo<=hi is never empty because every integer has unboundedly many spellings ("05", "005", …).
//   - canon: over canonical decimal spellings + non-integers only (reported as a diagnostic; this is the
//     domain on which "Gt 4 AND Lt 6 AND NotIn[5]" is empty).
func nonEmptyExact(c conj) (str, canon bool) {
	var in *atom
	excluded := map[string]bool{}
	lo, hi := int64(math.MinInt64), int64(math.MaxInt64)
	bounded := false
	for i := range c {
		a := c[i]
		switch a.Op {
		case "DoesNotExist":
			return false, false
		case "In":
			if in == nil {
				in = &c[i]
			}
		case "NotIn":
			for _, v := range a.Vals {
				excluded[v] = true
			}
		case "Exists":
		case "Gt", "Lt", "Gte", "Lte":
			if len(a.Vals) != 1 {
				return false, false
			}
			b, err := strconv.ParseInt(a.Vals[0], 10, 64)
			if err != nil {
				return false, false
			}
			bounded = true
			switch a.Op {
			case "Gt":
				if b == math.MaxInt64 {
					return false, false
				}
				b++
				fallthrough
			case "Gte":
				if b > lo {
					lo = b
				}
			case "Lt":
				if b == math.MinInt64 {
					return false, false
				}
				b--
				fallthrough
			case "Lte":
				if b < hi {
					hi = b
				}
			}
		}
	}
	if in != nil {
		// finite candidate list: decide by evaluating every candidate against every atom
		for _, v := range in.Vals {
			ok := true
			for _, a := range c {
				if !oracle.Admits(a.Op, a.Vals, v, true) {
					ok = false
					break
				}
			}
			if ok {
				return true, true // a mentioned value; (canonical or not, it is a concrete witness)
			}
		}
		return false, false
	}
	if !bounded {
		return true, true // co-finite set of strings
	}
	if lo > hi {
		return false, false
	}
	// string domain: infinitely many spellings of lo, finitely many exclusions
	str = true
	// canonical domain: some integer in [lo,hi] whose canonical spelling is not excluded
	span := uint64(hi) - uint64(lo) // number of integers - 1 (wrap-around arithmetic is exact here)
	if span >= uint64(len(excluded)) {
		return str, true
	}
	for x := lo; ; x++ {
		if !excluded[strconv.FormatInt(x, 10)] {
			return str, true
		}
		if x == hi {
			break
		}
	}
	return str, false
}

// finiteCount returns (n, true) when the conjunction admits a finite set of present values (it contains an
// In or DoesNotExist atom) and n is its exact size.
func finiteCount(c conj) (int, bool) {
	var in *atom
	for i := range c {
		if c[i].Op == "DoesNotExist" {
			return 0, true
		}
		if c[i].Op == "In" && in == nil {
			in = &c[i]
		}
	}
	if in == nil {
		return 0, false
	}
	seen := map[string]bool{}
	n := 0
	for _, v := range in.Vals {
		if seen[v] {
			continue
		}
		seen[v] = true
		ok := true
		for _, a := range c {
			if !oracle.Admits(a.Op, a.Vals, v, true) {
				ok = false
				break
			}
		}
		if ok {
			n++
		}
	}
	return n, true
}

func admitsAbsent(c conj) bool {
	for _, a := range c {
		if !oracle.Admits(a.Op, a.Vals, "", false) {
			return false
		}
	}
	return true
}

// ---- the exhaustive atom universe (tier-determined) ----

type tierCfg struct {
	values  []string // arguments of In / NotIn
	maxSet  int      // largest argument list
	bounds  []string // arguments of Gt / Lt / Gte / Lte
	maxConj int      // largest conjunction formed in the exhaustive layers
}

func cfgFor(tier string) tierCfg {
	if tier == "thorough" {
		return tierCfg{
			values:  []string{"0", "1", "2", "5", "-1", "a", "1.5", "05", "6"},
			maxSet:  3,
			bounds:  []string{"0", "1", "2", "4", "5", "6", "-1", maxInt64S, maxInt64m1S, minInt64S, minInt64p1S},
			maxConj: 4,
		}
	}
	return tierCfg{
		values:  []string{"0", "1", "2", "5", "-1", "a", "1.5"},
		maxSet:  2,
		bounds:  []string{"0", "1", "2", "5", "-1", maxInt64S, maxInt64m1S, minInt64S, minInt64p1S},
		maxConj: 4,
	}
}

func subsets(vals []string, max int) [][]string {
	out := [][]string{{}}
	var rec func(start int, cur []string)
	rec = func(start int, cur []string) {
		if len(cur) > 0 {
			out = append(out, append([]string{}, cur...))
		}
		if len(cur) == max {
			return
		}
		for i := start; i < len(vals); i++ {
			rec(i+1, append(cur, vals[i]))
		}
	}
	rec(0, nil)
	return out
}

func buildAtoms(c tierCfg) []atom {
	var out []atom
	out = append(out, atom{Op: "Exists"}, atom{Op: "DoesNotExist"})
	for _, op := range []string{"In", "NotIn"} {
		for _, s := range subsets(c.values, c.maxSet) {
			out = append(out, atom{Op: op, Vals: s})
		}
	}
	for _, op := range []string{"Gt", "Lt", "Gte", "Lte"} {
		for _, b := range c.bounds {
			out = append(out, atom{Op: op, Vals: []string{b}})
		}
	}
	return out
}
