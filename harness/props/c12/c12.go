// Package c12: the label-requirement algebra agrees with set semantics.
//
// The real scheduling.Requirement / scheduling.Requirements code is executed on
//   - an exhaustive, tier-determined universe of node-selector expressions ("atoms": 8 operators x
//     argument lists), all ordered pairs and all ordered triples of them (algebra shards);
//   - every pair of single-key requirement sets whose key is undefined / one atom / two atoms, under
//     the strict and the AllowUndefinedWellKnownLabels treatment, on custom, well-known and aliased
//     keys (compat shards);
//   - random wider inputs: longer value lists, arbitrary bounds, n-ary intersections in random order
//     and bracketing, multi-key requirement sets (random chunks).
//
// Every public answer (Has, Intersection(...).Has, HasIntersection, Len, Operator, MinValues,
// Requirements.Add/Get/Has, Compatible, Intersects) is compared with an oracle that never calls the
// code under judgement: plain operator semantics (oracle.Admits, itself cross-checked against the
// upstream nodeaffinity matcher) evaluated on a probe universe that provably contains a witness for
// every conjunction, plus an exact symbolic emptiness decision on the infinite string domain.
package c12

import (
	"fmt"
	"math/rand"
	"sort"
	"strconv"
	"strings"
	"sync"

	corev1 "k8s.io/api/core/v1"
	metav1 "k8s.io/apimachinery/pkg/apis/meta/v1"
	"k8s.io/component-helpers/scheduling/corev1/nodeaffinity"

	v1 "sigs.k8s.io/karpenter/pkg/apis/v1"
	"sigs.k8s.io/karpenter/pkg/scheduling"

	"verif/mon"
	"verif/props/reg"
)

const (
	keyCustom    = "example.com/k"
	keyZone      = "topology.kubernetes.io/zone"
	keyZoneAlias = "failure-domain.beta.kubernetes.io/zone"

	algebraShards = 64
	compatShards  = 64
)

// documented aliases (pkg/apis/v1/labels.go NormalizedLabels), restated here so that a change of the
// table in the code under test is noticed.
var aliasTable = map[string]string{
	"failure-domain.beta.kubernetes.io/zone":   "topology.kubernetes.io/zone",
	"beta.kubernetes.io/arch":                  "kubernetes.io/arch",
	"beta.kubernetes.io/os":                    "kubernetes.io/os",
	"beta.kubernetes.io/instance-type":         "node.kubernetes.io/instance-type",
	"failure-domain.beta.kubernetes.io/region": "topology.kubernetes.io/region",
}

// documented well-known labels (the keys for which AllowUndefinedWellKnownLabels lifts the denial).
var wellKnown = map[string]bool{
	"karpenter.sh/nodepool":            true,
	"topology.kubernetes.io/zone":      true,
	"topology.kubernetes.io/region":    true,
	"node.kubernetes.io/instance-type": true,
	"kubernetes.io/arch":               true,
	"kubernetes.io/os":                 true,
	"karpenter.sh/capacity-type":       true,
	"node.kubernetes.io/windows-build": true,
}

func canonKey(k string) string {
	if c, ok := aliasTable[k]; ok {
		return c
	}
	return k
}

func newReq(key string, a atom, mv *int) *scheduling.Requirement {
	return scheduling.NewRequirementWithFlexibility(key, corev1.NodeSelectorOperator(a.Op), mv, append([]string{}, a.Vals...)...)
}

func realBits(q *scheduling.Requirement, probes []string) bits {
	var b bits
	for i, v := range probes {
		if q.Has(v) {
			b.set(i)
		}
	}
	return b
}

func firstDiff(a, b bits, n int) int {
	for i := 0; i < n; i++ {
		if a.has(i) != b.has(i) {
			return i
		}
	}
	return -1
}

// realAcceptsAbsent observes, through the public API only, whether Karpenter takes a node that does not define the
// label to satisfy q: an empty first set under the strict treatment is compatible with {q} exactly in that case.
func realAcceptsAbsent(q *scheduling.Requirement) bool {
	return scheduling.NewRequirements().Compatible(scheduling.Requirements{q.Key: q}) == nil
}

// ---- per-process universe ----

type uni struct {
	cfg    tierCfg
	atoms  []atom
	probes []string
	nP     int // index of the "label absent" bit
	all    bits
	orc    []bits
	req    []*scheduling.Requirement
	real   []bits
	bad    []bool

	sidesOnce sync.Once
	sides     []side
}

var (
	uniMu sync.Mutex
	unis  = map[string]*uni{}
)

func universeFor(tier string) *uni {
	uniMu.Lock()
	defer uniMu.Unlock()
	if u, ok := unis[tier]; ok {
		return u
	}
	c := cfgFor(tier)
	u := &uni{cfg: c, atoms: buildAtoms(c)}
	u.probes = buildProbes(u.atoms, c.maxConj*c.maxSet)
	u.nP = len(u.probes)
	for i := 0; i <= u.nP; i++ {
		u.all.set(i)
	}
	for _, a := range u.atoms {
		q := newReq(keyCustom, a, nil)
		ob := oracleBits(a, u.probes)
		rb := realBits(q, u.probes)
		u.orc = append(u.orc, ob)
		u.req = append(u.req, q)
		u.real = append(u.real, rb)
		u.bad = append(u.bad, rb != ob.without(u.nP))
	}
	unis[tier] = u
	return u
}

func (u *uni) describe() string {
	return fmt.Sprintf("atoms = {Exists, DoesNotExist} + {In,NotIn} x every list of <=%d values from %v + {Gt,Lt,Gte,Lte} x %v (%d atoms); every ordered pair and every ordered triple of atoms; "+
		"single-key requirement sets {undefined | 1 atom | 2 atoms with <=2 arguments each} x the same, for Compatible/Intersects under strict and AllowUndefinedWellKnownLabels on a custom key, a well-known key and its alias; "+
		"%d probe label values per check + the absent label (complete witness set for conjunctions of <=%d atoms)",
		u.cfg.maxSet, u.cfg.values, u.cfg.bounds, len(u.atoms), u.nP, u.cfg.maxConj)
}

// ---- upstream cross-check of the oracle ----

func upstreamSelector(key string, c conj) (*nodeaffinity.NodeSelector, bool) {
	var exprs []corev1.NodeSelectorRequirement
	for _, a := range c {
		op, vals := a.Op, a.Vals
		switch a.Op {
		case "Gte", "Lte": // Gte b == Gt b-1, Lte b == Lt b+1
			b, err := strconv.ParseInt(a.Vals[0], 10, 64)
			if err != nil {
				return nil, false
			}
			d := int64(-1)
			op = "Gt"
			if a.Op == "Lte" {
				d, op = 1, "Lt"
			}
			nb, ok := addSafe(b, d)
			if !ok {
				return nil, false
			}
			vals = []string{strconv.FormatInt(nb, 10)}
		}
		exprs = append(exprs, corev1.NodeSelectorRequirement{Key: key, Operator: corev1.NodeSelectorOperator(op), Values: vals})
	}
	ns, err := nodeaffinity.NewNodeSelector(&corev1.NodeSelector{NodeSelectorTerms: []corev1.NodeSelectorTerm{{MatchExpressions: exprs}}})
	if err != nil {
		return nil, false
	}
	return ns, true
}

// crossCheckUpstream compares want (oracle bits incl. absent) with the upstream matcher on real Node objects.
func crossCheckUpstream(r *mon.Report, c conj, want bits, probes []string) {
	ns, ok := upstreamSelector(keyCustom, c)
	if !ok {
		r.Inc("upstream_rejected_selector")
		return
	}
	r.Inc("upstream_crosschecked_selectors")
	n := 0
	for i := 0; i <= len(probes); i++ {
		node := &corev1.Node{ObjectMeta: metav1.ObjectMeta{Name: "n", Labels: map[string]string{"other": "x"}}}
		if i < len(probes) {
			node.Labels[keyCustom] = probes[i]
		}
		n++
		if got := ns.Match(node); got != want.has(i) {
			v := "<absent>"
			if i < len(probes) {
				v = probes[i]
			}
			r.Inconcl("ORACLE SELF-CHECK: upstream nodeaffinity says %v for %s on label %q but oracle.Admits says %v", got, c, v, want.has(i))
			r.Inc("oracle_upstream_disagreements")
			return
		}
	}
	r.Count("upstream_match_comparisons", n)
}

// ---- layer 1: one atom ----

func boundSuffix(a atom) string {
	if !a.isBound() {
		return ""
	}
	switch a.Vals[0] {
	case minInt64S:
		return ":bound=MinInt64"
	case maxInt64S:
		return ":bound=MaxInt64"
	}
	return ""
}

func checkAtom(r *mon.Report, u *uni, i int) {
	a := u.atoms[i]
	q := u.req[i]
	r.Inc("atoms_checked")
	r.Count("has_checks", u.nP)
	crossCheckUpstream(r, conj{a}, u.orc[i], u.probes)
	if u.bad[i] {
		d := firstDiff(u.real[i], u.orc[i].without(u.nP), u.nP)
		extra := ""
		if a.Op == "Lt" && a.Vals[0] == minInt64S {
			extra = " — Lt N is canonicalised to Lte N-1 without an underflow guard (Gt MaxInt64 has one): MinInt64-1 wraps to MaxInt64, so a requirement that admits nothing admits every integer"
		}
		r.Violate("has-disagrees:"+a.Op+boundSuffix(a),
			fmt.Sprintf("NewRequirement(%s).Has(%q)=%v but the operator admits=%v under Kubernetes semantics%s", a, u.probes[d], u.real[i].has(d), u.orc[i].has(d), extra),
			map[string]any{"atom": a}, map[string]any{"probe": u.probes[d], "has": u.real[i].has(d), "oracle": u.orc[i].has(d), "requirement": q.String()})
		return
	}
	// Operator() round trip for API-valid single expressions
	if !a.emptyList() {
		want := corev1.NodeSelectorOperator(a.Op)
		if a.isBound() {
			want = corev1.NodeSelectorOpExists // documented: bounds are "Exists with bounds"
		}
		r.Inc("operator_roundtrip_checks")
		if got := q.Operator(); got != want {
			if ne, _ := nonEmptyExact(conj{a}); !ne && a.isBound() && got == corev1.NodeSelectorOpDoesNotExist {
				// a bound that admits nothing (Gt MaxInt64) is documented to "match nothing"; its treatment of the
				// absent label is judged in the compat layer (unsatisfiable vs DoesNotExist)
				r.Inc("operator_unsat_bound_reported_DoesNotExist")
			} else {
				r.Violate("operator-roundtrip:"+a.Op+boundSuffix(a), fmt.Sprintf("NewRequirement(%s).Operator()=%s, expected %s", a, got, want),
					map[string]any{"atom": a}, map[string]any{"got": got, "want": want})
			}
		}
	}
	// Len() on finite sets
	if n, fin := finiteCount(conj{a}); fin {
		r.Inc("len_checks")
		if q.Len() != n {
			r.Violate("len-disagrees:"+a.Op, fmt.Sprintf("NewRequirement(%s).Len()=%d but it admits exactly %d values", a, q.Len(), n),
				map[string]any{"atom": a}, map[string]any{"len": q.Len(), "want": n})
		}
	} else {
		r.Inc("len_checks")
		if ne, _ := nonEmptyExact(conj{a}); (q.Len() > 0) != ne {
			r.Violate("len-disagrees:"+a.Op, fmt.Sprintf("NewRequirement(%s).Len()=%d but semantically non-empty=%v", a, q.Len(), ne), map[string]any{"atom": a}, nil)
		}
	}
	// alias normalisation: constructing under an alias yields the canonical key and the same set
	for al, cn := range aliasTable {
		qa := newReq(al, a, nil)
		r.Inc("alias_checks")
		if qa.Key != cn {
			r.Violate("alias-not-normalised", fmt.Sprintf("NewRequirement(%q, %s).Key=%q, expected %q", al, a, qa.Key, cn), map[string]any{"atom": a, "alias": al}, nil)
			continue
		}
		if rb := realBits(qa, u.probes); rb != u.real[i] {
			r.Violate("alias-changes-admitted-set", fmt.Sprintf("NewRequirement(%q, %s) admits a different set than under a plain key", al, a), map[string]any{"atom": a, "alias": al}, nil)
		}
	}
	// minValues carried by the constructor (diagnostic: not a clause of the property statement)
	mv := 2
	if qm := newReq(keyCustom, a, &mv); qm.MinValues == nil || *qm.MinValues != 2 {
		r.Inc("diag_constructor_dropped_minvalues")
		if _, ok := r.Extra["diag_constructor_dropped_minvalues_example"]; !ok {
			r.Extra["diag_constructor_dropped_minvalues_example"] = a.String()
		}
	}
}

// ---- layers 2+3: ordered pair (i,j) and all triples (i,j,k) ----

var mvChoices = []*int{nil, intp(1), intp(3), intp(2)}

func intp(i int) *int { return &i }

func maxMV(a, b *int) *int {
	if a == nil {
		return b
	}
	if b == nil {
		return a
	}
	if *a > *b {
		return a
	}
	return b
}

func mvEq(a, b *int) bool {
	if a == nil || b == nil {
		return a == b
	}
	return *a == *b
}

func mvStr(a *int) string {
	if a == nil {
		return "nil"
	}
	return strconv.Itoa(*a)
}

// checkOverlap judges HasIntersection / Intersection().Len()>0 between two real requirements whose
// semantics are the conjunctions ca and cb; want = oracle bits of ca AND cb.
func checkOverlap(r *mon.Report, probes []string, nP int, qa, qb *scheduling.Requirement, ca, cb conj, want bits) bool {
	both := append(append(conj{}, ca...), cb...)
	neStr, neCanon := nonEmptyExact(both)
	probeNE := !want.without(nP).zero()
	r.Inc("overlap_checks")
	if probeNE != neStr {
		r.Inconcl("ORACLE SELF-CHECK: probe universe says nonEmpty=%v but the symbolic decision says %v for %s", probeNE, neStr, both)
		r.Inc("oracle_selfcheck_disagreements")
		return false
	}
	h := qa.HasIntersection(qb)
	hr := qb.HasIntersection(qa)
	in := qa.Intersection(qb)
	l := in.Len() > 0
	if neStr {
		r.Inc("overlap_semantically_nonempty")
	} else {
		r.Inc("overlap_semantically_empty")
	}
	cs := map[string]any{"left": ca.String(), "right": cb.String()}
	wit := map[string]any{"HasIntersection": h, "HasIntersection_reversed": hr, "Intersection.Len": in.Len(), "Intersection": in.String(),
		"left_requirement": qa.String(), "right_requirement": qb.String(), "semantically_nonempty": neStr, "nonempty_over_canonical_integers_only": neCanon}
	shape := pairShape(ca, cb)
	if len(ca)+len(cb) > 2 {
		x, y := ca.class(), cb.class()
		if x > y {
			x, y = y, x
		}
		shape = x + "&" + y
	}
	switch {
	case h != hr:
		r.Violate("overlap-not-symmetric:"+shape, fmt.Sprintf("(%s).HasIntersection(%s)=%v but reversed=%v", ca, cb, h, hr), cs, wit)
		return false
	case h != l:
		r.Violate("overlap-vs-intersection-len-disagree:"+shape, fmt.Sprintf("(%s).HasIntersection(%s)=%v but Intersection().Len()=%d", ca, cb, h, in.Len()), cs, wit)
		return false
	case h && !neStr:
		r.Violate("overlap-true-on-empty-intersection:"+shape, fmt.Sprintf("(%s).HasIntersection(%s)=true (Intersection().Len()=%d) although no label value is admitted by both", ca, cb, in.Len()), cs, wit)
		return false
	case !h && neStr:
		r.Violate("overlap-false-on-nonempty-intersection:"+shape, fmt.Sprintf("(%s).HasIntersection(%s)=false although some label value is admitted by both", ca, cb), cs, wit)
		return false
	}
	if h && !neCanon {
		// the probe-confirmed suspicion "Gt 4 AND Lt 6 vs NotIn[5]": every canonically spelled integer of the range
		// is excluded, yet zero-padded spellings ("05") are admitted by Kubernetes and by Requirement.Has alike,
		// so the overlap answer is right on the string domain. Counted, with an example, not a violation.
		r.Inc("diag_overlap_true_nonempty_only_via_noncanonical_spelling")
		if _, ok := r.Extra["diag_noncanonical_only_example"]; !ok {
			if ns, acc := upstreamSelector(keyCustom, both); acc {
				w := ""
				for i := 0; i < nP; i++ { // prefer a digits-only witness (a valid label value)
					if want.has(i) && (w == "" || strings.Trim(probes[i], "0123456789") == "" && strings.Trim(w, "0123456789") != "") {
						w = probes[i]
					}
				}
				node := &corev1.Node{ObjectMeta: metav1.ObjectMeta{Name: "n", Labels: map[string]string{keyCustom: w}}}
				r.Extra["diag_noncanonical_only_example"] = map[string]any{"left": ca.String(), "right": cb.String(), "label_value": w,
					"upstream_nodeaffinity_Match": ns.Match(node), "Intersection.Has": in.Has(w), "HasIntersection": h,
					"note": "every canonically spelled integer of the bounded range is excluded, but Kubernetes parses the zero-padded spelling to the same integer while NotIn compares raw strings, so the intersection is not empty"}
			}
		}
	}
	return true
}

func checkPair(r *mon.Report, u *uni, i, j int, triples bool) {
	if u.bad[i] || u.bad[j] {
		r.Inc("skipped_atom_level_violation_involved")
		return
	}
	a, b := u.atoms[i], u.atoms[j]
	A, B := u.req[i], u.req[j]
	nP := u.nP
	wantAB := u.orc[i].and(u.orc[j])
	cs := map[string]any{"A": a.String(), "B": b.String()}
	r.Inc("pairs_checked")

	I := A.Intersection(B)
	J := B.Intersection(A)
	ib, jb := realBits(I, u.probes), realBits(J, u.probes)
	r.Count("intersection_has_checks", 2*nP)
	if ib != wantAB.without(nP) {
		d := firstDiff(ib, wantAB, nP)
		r.Violate("intersection-admits-wrong-values:"+pairShape(conj{a}, conj{b}),
			fmt.Sprintf("(%s).Intersection(%s).Has(%q)=%v but A admits=%v and B admits=%v", a, b, u.probes[d], ib.has(d), u.orc[i].has(d), u.orc[j].has(d)),
			cs, map[string]any{"probe": u.probes[d], "intersection": I.String(), "A": A.String(), "B": B.String()})
		return
	}
	r.Inc("commutativity_checks")
	if ib != jb {
		d := firstDiff(ib, jb, nP)
		r.Violate("intersection-not-commutative:"+pairShape(conj{a}, conj{b}), fmt.Sprintf("A∩B and B∩A differ on %q for A=%s B=%s", u.probes[d], a, b), cs,
			map[string]any{"AB": I.String(), "BA": J.String()})
		return
	}
	if I.Key != keyCustom {
		r.Violate("intersection-changes-key", fmt.Sprintf("Intersection key %q", I.Key), cs, nil)
		return
	}
	// operands untouched
	if realBits(A, u.probes) != u.real[i] || realBits(B, u.probes) != u.real[j] {
		r.Violate("intersection-mutates-operand", fmt.Sprintf("operand changed by Intersection for A=%s B=%s", a, b), cs, nil)
		return
	}
	// idempotence / absorption
	r.Inc("idempotence_checks")
	if i == j && ib != u.real[i] {
		r.Violate("intersection-not-idempotent:"+a.Op, fmt.Sprintf("A∩A admits a different set than A for A=%s", a), cs, map[string]any{"AA": I.String(), "A": A.String()})
		return
	}
	if realBits(I.Intersection(B), u.probes) != ib || realBits(A.Intersection(I), u.probes) != ib {
		r.Violate("intersection-not-idempotent:"+pairShape(conj{a}, conj{b}), fmt.Sprintf("(A∩B)∩B or A∩(A∩B) differs from A∩B for A=%s B=%s", a, b), cs, map[string]any{"AB": I.String()})
		return
	}
	// Len of finite results
	if n, fin := finiteCount(conj{a, b}); fin {
		r.Inc("len_checks")
		if I.Len() != n {
			r.Violate("len-disagrees:"+pairShape(conj{a}, conj{b}), fmt.Sprintf("(%s).Intersection(%s).Len()=%d but exactly %d values are admitted", a, b, I.Len(), n), cs,
				map[string]any{"intersection": I.String()})
			return
		}
	}
	// overlap test
	if !checkOverlap(r, u.probes, nP, A, B, conj{a}, conj{b}, wantAB) {
		return
	}
	// minValues = max, also on the early-return paths (disjoint bounds)
	ma, mb := mvChoices[(i+j)%4], mvChoices[(i/4+3*j)%4]
	Am, Bm := newReq(keyCustom, a, ma), newReq(keyCustom, b, mb)
	if mvEq(Am.MinValues, ma) && mvEq(Bm.MinValues, mb) { // constructor drops are a separate diagnostic
		r.Inc("minvalues_checks")
		Im := Am.Intersection(Bm)
		if !mvEq(Im.MinValues, maxMV(ma, mb)) {
			r.Violate("intersection-minvalues-not-max:"+pairShape(conj{a}, conj{b}), fmt.Sprintf("minValues %s ∩ %s gave %s for A=%s B=%s", mvStr(ma), mvStr(mb), mvStr(Im.MinValues), a, b), cs, nil)
			return
		}
		if realBits(Im, u.probes) != ib {
			r.Violate("minvalues-change-admitted-set", fmt.Sprintf("minValues changed the admitted set for A=%s B=%s", a, b), cs, nil)
			return
		}
	}
	// Requirements.Add == Intersection; Requirements.Get / Has
	rs := scheduling.NewRequirements(newReq(keyCustom, a, nil), newReq(keyCustom, b, nil))
	r.Inc("add_vs_intersection_checks")
	if !rs.Has(keyCustom) || len(rs) != 1 || realBits(rs.Get(keyCustom), u.probes) != ib {
		r.Violate("requirements-add-differs-from-intersection:"+pairShape(conj{a}, conj{b}), fmt.Sprintf("NewRequirements(A,B).Get(key) differs from A∩B for A=%s B=%s", a, b), cs,
			map[string]any{"add": rs.Get(keyCustom).String(), "intersection": I.String()})
		return
	}
	if !triples {
		return
	}
	for k := range u.atoms {
		if u.bad[k] {
			continue
		}
		c := u.atoms[k]
		C := u.req[k]
		want := wantAB.and(u.orc[k])
		r.Inc("triples_checked")
		L := I.Intersection(C)
		R := A.Intersection(B.Intersection(C))
		lb, rb := realBits(L, u.probes), realBits(R, u.probes)
		r.Count("intersection_has_checks", 2*nP)
		cs3 := map[string]any{"A": a.String(), "B": b.String(), "C": c.String()}
		if lb != rb {
			d := firstDiff(lb, rb, nP)
			r.Violate("intersection-not-associative:"+"triple/"+conj{a, b, c}.class(), fmt.Sprintf("(A∩B)∩C and A∩(B∩C) differ on %q for A=%s B=%s C=%s", u.probes[d], a, b, c), cs3,
				map[string]any{"(AB)C": L.String(), "A(BC)": R.String()})
			continue
		}
		if lb != want.without(nP) {
			d := firstDiff(lb, want, nP)
			r.Violate("intersection-admits-wrong-values:"+"triple/"+conj{a, b, c}.class(), fmt.Sprintf("((%s)∩(%s))∩(%s) .Has(%q)=%v but the conjunction admits=%v", a, b, c, u.probes[d], lb.has(d), want.has(d)), cs3,
				map[string]any{"probe": u.probes[d], "(AB)C": L.String(), "AB": I.String(), "C": C.String()})
			continue
		}
		if n, fin := finiteCount(conj{a, b, c}); fin && L.Len() != n {
			r.Violate("len-disagrees:"+"triple/"+conj{a, b, c}.class(), fmt.Sprintf("((%s)∩(%s))∩(%s).Len()=%d but exactly %d values are admitted", a, b, c, L.Len(), n), cs3, map[string]any{"(AB)C": L.String()})
			continue
		}
		// overlap of a compound requirement with an atom (this is where bounded ranges meet exclusions)
		checkOverlap(r, u.probes, nP, I, C, conj{a, b}, conj{c}, want)
		// Requirements.Add folds like Intersection
		if (i+j+k)%3 == 0 {
			rs3 := scheduling.NewRequirements(newReq(keyCustom, a, nil), newReq(keyCustom, b, nil), newReq(keyCustom, c, nil))
			r.Inc("add_vs_intersection_checks")
			if realBits(rs3.Get(keyCustom), u.probes) != lb {
				r.Violate("requirements-add-differs-from-intersection:"+"triple/"+conj{a, b, c}.class(), fmt.Sprintf("NewRequirements(A,B,C).Get(key) differs from (A∩B)∩C for A=%s B=%s C=%s", a, b, c), cs3, nil)
			}
		}
	}
}

func runAlgebraShard(r *mon.Report, tier string, shard int) {
	u := universeFor(tier)
	n := len(u.atoms)
	for i := shard; i < n; i += algebraShards {
		checkAtom(r, u, i)
	}
	for p := shard; p < n*n; p += algebraShards {
		checkPair(r, u, p/n, p%n, true)
	}
	// nothing above may have changed the shared atoms
	for i := range u.atoms {
		if realBits(u.req[i], u.probes) != u.real[i] {
			r.Violate("requirement-mutated-by-readonly-call", fmt.Sprintf("atom %s changed its admitted set during the shard", u.atoms[i]), nil, nil)
			break
		}
	}
	r.Eval()
	r.Sig("algebra-shard-%d", shard)
	r.Exhaustive = true
	r.Extra["exhaustive_universe"] = u.describe()
	r.Extra["atoms"] = n
	r.Extra["probe_values"] = u.nP
	if shard == 0 {
		r.Sample(map[string]any{"kind": "algebra", "atoms": n, "example_atoms": []string{u.atoms[0].String(), u.atoms[5].String(), u.atoms[n-1].String()},
			"probes_excerpt": u.probes[:min(12, len(u.probes))]})
	}
}

// ---- witness selection for the set-level monitors ----
//
// The set-level layers can witness one root cause millions of times. Every disagreement is counted
// ("disagreements:<key>"); per case and key the three most realistic witnesses (fewest atoms, no negative or
// int64-limit arguments, first configuration) are handed to Report.Violate when the case ends.

type pendingViolation struct {
	score   int
	dedupe  string
	key     string
	what    string
	cs, wit any
}

var pendingByKey = map[string][]pendingViolation{}

func realism(cs ...conj) int {
	n := 0
	for _, c := range cs {
		ex, dne := false, false
		for _, a := range c {
			n++
			ex = ex || a.Op == "Exists"
			dne = dne || a.Op == "DoesNotExist"
			for _, v := range a.Vals {
				if strings.HasPrefix(v, "-") {
					n += 3
				}
				if len(v) > 15 {
					n += 4
				}
			}
		}
		if ex && dne {
			n += 2
		}
		if dne && len(c) > 1 {
			n++
		}
	}
	return n
}

func report(r *mon.Report, key string, score int, dedupe, what string, cs, wit any) {
	r.Inc("disagreements:" + key)
	l := pendingByKey[key]
	for _, p := range l {
		if p.dedupe == dedupe {
			return
		}
	}
	if len(l) == 3 && l[2].score <= score {
		return
	}
	l = append(l, pendingViolation{score, dedupe, key, what, cs, wit})
	sort.SliceStable(l, func(i, j int) bool { return l[i].score < l[j].score })
	if len(l) > 3 {
		l = l[:3]
	}
	pendingByKey[key] = l
}

func flush(r *mon.Report) {
	keys := make([]string, 0, len(pendingByKey))
	for k := range pendingByKey {
		keys = append(keys, k)
	}
	sort.Strings(keys)
	for _, k := range keys {
		for _, p := range pendingByKey[k] {
			r.Violate(p.key, p.what, p.cs, p.wit)
		}
	}
	pendingByKey = map[string][]pendingViolation{}
}

var classText = map[string]string{
	"unsat-conjunction-treated-as-DoesNotExist": "one side's conjunction admits neither any value nor the absent label (it is unsatisfiable), but the algebra stores it as the empty non-complement set, " +
		"for which Operator() reports DoesNotExist, so Compatible/Intersects take the absent label to satisfy it",
	"bounded-complement-with-exclusion-reports-NotIn-absent-allowed": "one side's conjunction contains an integer bound, which only a present label can satisfy, but the absent-label test looks at Requirement.Operator(), which reports NotIn " +
		"(an excluded value inside the range makes Len() < MaxInt64; the bounds are ignored), so Compatible/Intersects take the absent / undefined label to satisfy it",
	"exists-and-notin-collapses-to-NotIn-absent-allowed": "one side's conjunction is Exists AND NotIn[...]; Intersection stores it exactly like a plain NotIn[...] (complement set with exclusions), " +
		"the presence demanded by Exists is lost, Operator() reports NotIn and Compatible/Intersects take the absent / undefined label to satisfy it",
}

// ---- compat layer: single-key requirement sets ----

type side struct {
	c    conj // nil = key undefined
	idx  [2]int
	ob   bits
	reqs [3]scheduling.Requirements // by key kind: custom, zone, zone given under its alias
	op   corev1.NodeSelectorOperator
	abs  bool // observed: Karpenter accepts the absent label for this set's key
	bad  bool
}

var kindKeys = [3]string{keyCustom, keyZone, keyZoneAlias}

func (u *uni) mkSide(c conj, ob bits, bad bool, i, j int) side {
	s := side{c: c, ob: ob, bad: bad, idx: [2]int{i, j}}
	for kd, key := range kindKeys {
		var rq []*scheduling.Requirement
		for _, a := range c {
			rq = append(rq, newReq(key, a, nil))
		}
		s.reqs[kd] = scheduling.NewRequirements(rq...)
	}
	if len(c) > 0 {
		s.op = s.reqs[0].Get(keyCustom).Operator()
		s.abs = realAcceptsAbsent(s.reqs[0].Get(keyCustom))
	}
	return s
}

func (u *uni) buildSides() {
	u.sidesOnce.Do(func() {
		u.sides = append(u.sides, u.mkSide(nil, u.all, false, -1, -1))
		var ok []int
		for i, a := range u.atoms {
			if !a.emptyList() {
				ok = append(ok, i)
			}
		}
		for _, i := range ok {
			u.sides = append(u.sides, u.mkSide(conj{u.atoms[i]}, u.orc[i], u.bad[i], i, -1))
		}
		// two-atom sets: atoms with at most two arguments (keeps the thorough tier's square of sets tractable)
		var small []int
		for _, i := range ok {
			if len(u.atoms[i].Vals) <= 2 {
				small = append(small, i)
			}
		}
		for x, i := range small {
			for _, j := range small[x+1:] {
				u.sides = append(u.sides, u.mkSide(conj{u.atoms[i], u.atoms[j]}, u.orc[i].and(u.orc[j]), u.bad[i] || u.bad[j], i, j))
			}
		}
	})
}

type compatCfg struct {
	name       string
	rk, qk     int  // key kind used by the first / second set
	allow      bool // AllowUndefinedWellKnownLabels passed
	keyAllowed bool // documented: an undefined key of this kind is unconstrained under this option
}

var compatCfgs = []compatCfg{
	{"custom-key/strict", 0, 0, false, false},
	{"custom-key/allow-undefined-well-known", 0, 0, true, false},
	{"well-known-key/strict", 1, 1, false, false},
	{"well-known-key/allow-undefined-well-known", 1, 1, true, true},
	{"alias-in-second/allow-undefined-well-known", 1, 2, true, true},
	{"alias-in-first/strict", 2, 1, false, false},
}

// classify names the root-cause class of a Compatible/Intersects disagreement from what the public
// API reports about the two sides (Operator()) and what the oracle knows about their conjunctions.
func classify(nP int, sides ...sideView) string {
	// the sides passed are the two conjunctions on ONE disagreeing key; a side explains an unjustified acceptance when
	// Karpenter (observed) takes the absent label to satisfy it although its conjunction does not admit the absent label
	for _, s := range sides {
		if s.undefined || !s.realAbs || s.ob.has(nP) {
			continue
		}
		if s.ob.without(nP).zero() {
			return "unsat-conjunction-treated-as-DoesNotExist"
		}
	}
	for _, s := range sides {
		if s.undefined || !s.realAbs || s.ob.has(nP) || s.ob.without(nP).zero() {
			continue
		}
		if s.c.hasBound() {
			return "bounded-complement-with-exclusion-reports-NotIn-absent-allowed"
		}
		return "exists-and-notin-collapses-to-NotIn-absent-allowed"
	}
	return ""
}

type sideView struct {
	undefined bool
	c         conj
	ob        bits
	realAbs   bool
}

func checkCompatPair(r *mon.Report, u *uni, sr, sq *side, cf compatCfg) {
	if sr.bad || sq.bad {
		r.Inc("skipped_atom_level_violation_involved")
		return
	}
	nP := u.nP
	var onlyAbsent bits
	onlyAbsent.set(nP)
	rb, qb := sr.ob, sq.ob
	if sr.c == nil {
		if cf.keyAllowed {
			rb = u.all
		} else {
			rb = onlyAbsent
		}
		if sq.c == nil {
			rb = u.all // no key at all
		}
	}
	wantCompat := !rb.and(qb).zero()
	wantInter := true
	if sr.c != nil && sq.c != nil {
		wantInter = !sr.ob.and(sq.ob).zero()
	}
	R, Q := sr.reqs[cf.rk], sq.reqs[cf.qk]
	var gotCompat, gotIs, gotInter bool
	if cf.allow {
		gotCompat = R.Compatible(Q, scheduling.AllowUndefinedWellKnownLabels) == nil
		gotIs = R.IsCompatible(Q, scheduling.AllowUndefinedWellKnownLabels)
	} else {
		gotCompat = R.Compatible(Q) == nil
		gotIs = R.IsCompatible(Q)
	}
	gotInter = R.Intersects(Q) == nil
	r.Inc("compat_checks")
	r.Inc("intersects_checks")
	if wantCompat {
		r.Inc("compat_oracle_true")
	} else {
		r.Inc("compat_oracle_false")
	}
	if sr.c == nil && sq.c != nil {
		r.Inc("compat_undefined_key_in_first")
		if cf.keyAllowed {
			r.Inc("compat_undefined_key_allowed_by_option")
		}
	}
	if cf.rk != cf.qk && sr.c != nil && sq.c != nil {
		r.Inc("compat_alias_vs_canonical_key")
	}
	if gotCompat == wantCompat && gotInter == wantInter && gotIs == gotCompat {
		return
	}
	views := []sideView{{sq.c == nil, sq.c, sq.ob, sq.abs}, {sr.c == nil, sr.c, sr.ob, sr.abs}}
	cs := map[string]any{"first": sr.c.String(), "second": sq.c.String(), "config": cf.name, "first_key": kindKeys[cf.rk], "second_key": kindKeys[cf.qk]}
	wit := map[string]any{"Compatible_ok": gotCompat, "oracle_compatible": wantCompat, "Intersects_ok": gotInter, "oracle_intersects": wantInter,
		"first_requirements": R.String(), "second_requirements": Q.String(),
		"first_Operator": string(sr.op), "second_Operator": string(sq.op),
		"first_absent_label_accepted_by_karpenter": sr.c != nil && sr.abs, "second_absent_label_accepted_by_karpenter": sq.c != nil && sq.abs,
		"first_admits_absent": sr.c == nil || sr.ob.has(nP), "second_admits_absent": sq.c == nil || sq.ob.has(nP),
		"first_admits_some_value": !sr.ob.without(nP).zero(), "second_admits_some_value": !sq.ob.without(nP).zero()}
	if gotIs != gotCompat {
		r.Violate("iscompatible-differs-from-compatible", "IsCompatible and Compatible()==nil disagree", cs, wit)
		return
	}
	cls := classify(nP, views...)
	method, got, want := "Compatible", gotCompat, wantCompat
	if gotCompat == wantCompat {
		method, got, want = "Intersects", gotInter, wantInter
	}
	key := cls
	if key == "" || !got { // a rejection cannot be explained by "absent wrongly allowed"
		d := "accepts-but-no-labelling-exists"
		if !got {
			d = "rejects-but-a-labelling-exists"
		}
		key = strings.ToLower(method) + "-" + d + ":" + sr.c.class() + "|" + sq.c.class()
	}
	r.DistinctAdd("disagreement_shapes", key+" first="+sr.c.shape()+" second="+sq.c.shape()+" method="+method)
	if key == "unsat-conjunction-treated-as-DoesNotExist" {
		if sq.c != nil && sq.ob.zero() {
			r.Inc("diag_unsat_side_is_second")
		} else {
			r.Inc("diag_unsat_side_is_first_only")
		}
	}
	score := realism(sr.c, sq.c) + 1
	if cf.name != compatCfgs[0].name {
		score++
	}
	if sr.c == nil { // the everyday shape: a pod constrains a key the NodePool does not define
		score--
	}
	what := fmt.Sprintf("first={%s} second={%s} [%s]: Requirements.%s reported ok=%v but %s; first.Operator()=%q second.Operator()=%q",
		sr.c, sq.c, cf.name, method, got, explain(want), sr.op, sq.op)
	if t, ok := classText[key]; ok {
		what += " — " + t
	}
	report(r, key, score, sr.c.String()+"|"+sq.c.String(), what, cs, wit)
}

func explain(want bool) string {
	if want {
		return "some node labelling (a value or the absent label) allowed by the first satisfies the second"
	}
	return "no node labelling allowed by the first (under the documented treatment of undefined keys) satisfies the second"
}

func runCompatShard(r *mon.Report, tier string, shard int) {
	u := universeFor(tier)
	u.buildSides()
	S := len(u.sides)
	for p := shard; p < S*S; p += compatShards {
		x, y := p/S, p%S
		sr, sq := &u.sides[x], &u.sides[y]
		checkCompatPair(r, u, sr, sq, compatCfgs[0])
		// the other key kinds / options differ from the first configuration only through undefined keys and key
		// normalisation: all of them on rows/columns with an undefined key, a fixed 1-in-11 sample elsewhere
		if sr.c == nil || sq.c == nil || p%11 == 0 {
			for _, cf := range compatCfgs[1:] {
				checkCompatPair(r, u, sr, sq, cf)
			}
		}
	}
	r.Eval()
	r.Sig("compat-shard-%d", shard)
	r.Exhaustive = true
	r.Extra["exhaustive_universe"] = u.describe()
	r.Extra["single_key_requirement_sets"] = S
	if shard == 0 {
		r.Sample(map[string]any{"kind": "compat", "sets_per_side": S, "configs": func() []string {
			var n []string
			for _, c := range compatCfgs {
				n = append(n, c.name)
			}
			return n
		}(), "example_sets": []string{u.sides[0].c.String(), u.sides[3].c.String(), u.sides[S-1].c.String()}})
	}
}

// ---- random chunks: wider values, n-ary intersections, multi-key sets ----

var rndValues = []string{"0", "1", "2", "3", "4", "5", "6", "7", "9", "10", "11", "12", "-1", "-2", "-10", "a", "b", "c", "1.5", "05", "007", "+3", "1e3", "",
	maxInt64S, maxInt64m1S, minInt64S, minInt64p1S, "9223372036854775808", "1000000", "999999"}
var rndBounds = []string{"0", "1", "2", "3", "4", "5", "6", "7", "8", "9", "10", "11", "12", "999999", "1000000", maxInt64m1S, maxInt64S, "-1", "-3", minInt64p1S}

func randAtom(rng *rand.Rand) atom {
	switch x := rng.Intn(20); {
	case x < 5:
		return atom{Op: "In", Vals: randVals(rng, 1+rng.Intn(4))}
	case x < 10:
		return atom{Op: "NotIn", Vals: randVals(rng, 1+rng.Intn(4))}
	case x < 11:
		return atom{Op: "Exists"}
	case x < 12:
		return atom{Op: "DoesNotExist"}
	default:
		return atom{Op: []string{"Gt", "Lt", "Gte", "Lte"}[rng.Intn(4)], Vals: []string{rndBounds[rng.Intn(len(rndBounds))]}}
	}
}

func randVals(rng *rand.Rand, n int) []string {
	seen := map[string]bool{}
	var out []string
	for len(out) < n {
		v := rndValues[rng.Intn(len(rndValues))]
		if rng.Intn(3) == 0 { // cluster around small integers so that bounded ranges get fully excluded
			v = strconv.Itoa(3 + rng.Intn(5))
		}
		if !seen[v] {
			seen[v] = true
			out = append(out, v)
		}
	}
	return out
}

func conjBits(c conj, probes []string) bits {
	var b bits
	for i := 0; i <= len(probes); i++ {
		b.set(i)
	}
	for _, a := range c {
		b = b.and(oracleBits(a, probes))
	}
	return b
}

// foldRandom intersects the real requirements in a random order and bracketing.
func foldRandom(rng *rand.Rand, qs []*scheduling.Requirement) *scheduling.Requirement {
	l := append([]*scheduling.Requirement{}, qs...)
	rng.Shuffle(len(l), func(i, j int) { l[i], l[j] = l[j], l[i] })
	for len(l) > 1 {
		i := rng.Intn(len(l) - 1)
		m := l[i].Intersection(l[i+1])
		l = append(append(l[:i:i], m), l[i+2:]...)
	}
	return l[0]
}

func runRandomAlgebra(r *mon.Report, rng *rand.Rand) {
	n := 2 + rng.Intn(4)
	var c conj
	for i := 0; i < n; i++ {
		c = append(c, randAtom(rng))
	}
	excl := 0
	for _, a := range c {
		excl += len(a.Vals)
	}
	probes := buildProbes(c, excl)
	nP := len(probes)
	want := conjBits(c, probes)
	var qs []*scheduling.Requirement
	okAtoms := true
	for _, a := range c {
		q := newReq(keyCustom, a, nil)
		if realBits(q, probes) != oracleBits(a, probes).without(nP) {
			okAtoms = false // reported by the exhaustive atom layer under has-disagrees; here only counted
		}
		qs = append(qs, q)
	}
	r.Inc("random_conjunctions")
	if !okAtoms {
		r.Inc("skipped_atom_level_violation_involved")
		return
	}
	cs := map[string]any{"atoms": c.String()}
	f1, f2 := foldRandom(rng, qs), foldRandom(rng, qs)
	b1, b2 := realBits(f1, probes), realBits(f2, probes)
	r.Count("intersection_has_checks", 2*nP)
	r.Inc("associativity_random_folds")
	if b1 != b2 {
		d := firstDiff(b1, b2, nP)
		r.Violate("intersection-order-dependent:"+"random/"+c.class(), fmt.Sprintf("two orders/bracketings of the intersection of {%s} differ on %q", c, probes[d]), cs, map[string]any{"one": f1.String(), "other": f2.String()})
		return
	}
	if b1 != want.without(nP) {
		d := firstDiff(b1, want, nP)
		r.Violate("intersection-admits-wrong-values:"+"random/"+c.class(), fmt.Sprintf("intersection of {%s} .Has(%q)=%v but the conjunction admits=%v", c, probes[d], b1.has(d), want.has(d)), cs, map[string]any{"result": f1.String()})
		return
	}
	if k, fin := finiteCount(c); fin && f1.Len() != k {
		r.Violate("len-disagrees:"+"random/"+c.class(), fmt.Sprintf("intersection of {%s} has Len()=%d but admits exactly %d values", c, f1.Len(), k), cs, map[string]any{"result": f1.String()})
		return
	}
	rs := scheduling.NewRequirements(qs...)
	r.Inc("add_vs_intersection_checks")
	if realBits(rs.Get(keyCustom), probes) != b1 {
		r.Violate("requirements-add-differs-from-intersection:"+"random/"+c.class(), fmt.Sprintf("NewRequirements({%s}).Get(key) differs from the folded intersection", c), cs, nil)
		return
	}
	// serialization round trip: the selector entries written for the key (what ends up in NodeClaim.spec.requirements),
	// read back and intersected again, admit exactly the same values. (An unsatisfiable conjunction is written as
	// DoesNotExist: the recorded representation finding; it is not judged here.)
	if !want.without(nP).zero() {
		ser := rs.NodeSelectorRequirements()
		back := scheduling.NewNodeSelectorRequirementsWithMinValues(ser...)
		r.Inc("serialization_roundtrip_checks")
		var got bits
		if back.Has(keyCustom) {
			got = realBits(back.Get(keyCustom), probes)
		} else {
			for i := 0; i < nP; i++ { // no entry for the key at all: unconstrained
				got.set(i)
			}
		}
		if got != b1 {
			d := firstDiff(got, b1, nP)
			var entries []string
			for _, e := range ser {
				entries = append(entries, fmt.Sprintf("%s %s %v", e.Key, e.Operator, e.Values))
			}
			r.Violate("serialization-roundtrip-changes-admitted-values:"+"random/"+c.class(), fmt.Sprintf("{%s} is written as %v; read back it admits %q = %v, before serialization %v", c, entries, probes[d], got.has(d), b1.has(d)), cs, map[string]any{"inMemory": f1.String(), "readBack": back.String()})
			return
		}
	}
	// overlap between two random halves
	cut := 1 + rng.Intn(n-1)
	left, right := foldRandom(rng, qs[:cut]), foldRandom(rng, qs[cut:])
	checkOverlap(r, probes, nP, left, right, c[:cut], c[cut:], want)
	// upstream cross-check of the conjunction oracle (samples)
	if rng.Intn(8) == 0 {
		crossCheckUpstream(r, c, want, probes)
	}
}

var rndKeys = []string{"example.com/k", "example.com/team", keyZone, keyZoneAlias, "node.kubernetes.io/instance-type", "beta.kubernetes.io/instance-type", "kubernetes.io/arch"}

type keyed struct {
	Key string `json:"key"`
	A   atom   `json:"atom"`
}

func randSet(rng *rand.Rand, keys []string) []keyed {
	var out []keyed
	for _, k := range keys {
		switch x := rng.Intn(10); {
		case x < 3: // undefined
		default:
			n := 1
			if x >= 7 {
				n = 2 + rng.Intn(2)
			}
			for i := 0; i < n; i++ {
				out = append(out, keyed{k, randAtom(rng)})
			}
		}
	}
	rng.Shuffle(len(out), func(i, j int) { out[i], out[j] = out[j], out[i] })
	return out
}

func runRandomCompat(r *mon.Report, rng *rand.Rand) {
	nk := 1 + rng.Intn(3)
	perm := rng.Perm(len(rndKeys))
	var keys []string
	for _, p := range perm[:nk] {
		keys = append(keys, rndKeys[p])
	}
	first, second := randSet(rng, keys), randSet(rng, keys)
	allow := rng.Intn(2) == 0
	r.Inc("random_set_pairs")
	checkSets(r, first, second, allow, 20)
}

// checkSets judges Compatible / Intersects of two explicit multi-key requirement sets.
func checkSets(r *mon.Report, first, second []keyed, allow bool, baseScore int) {
	var all conj
	excl := 0
	for _, k := range append(append([]keyed{}, first...), second...) {
		all = append(all, k.A)
		excl += len(k.A.Vals)
	}
	probes := buildProbes(all, excl)
	nP := len(probes)
	group := func(ks []keyed) map[string]conj {
		m := map[string]conj{}
		for _, k := range ks {
			m[canonKey(k.Key)] = append(m[canonKey(k.Key)], k.A)
		}
		return m
	}
	gf, gs := group(first), group(second)
	mk := func(ks []keyed) (scheduling.Requirements, bool) {
		var qs []*scheduling.Requirement
		ok := true
		for _, k := range ks {
			q := newReq(k.Key, k.A, nil)
			if realBits(q, probes) != oracleBits(k.A, probes).without(nP) {
				ok = false
			}
			qs = append(qs, q)
		}
		return scheduling.NewRequirements(qs...), ok
	}
	R, ok1 := mk(first)
	Q, ok2 := mk(second)
	if !ok1 || !ok2 {
		r.Inc("skipped_atom_level_violation_involved")
		return
	}
	var full, onlyAbsent bits
	for i := 0; i <= nP; i++ {
		full.set(i)
	}
	onlyAbsent.set(nP)
	wantCompat, wantInter := true, true
	ck := map[string]bool{}
	for k := range gf {
		ck[k] = true
	}
	for k := range gs {
		ck[k] = true
	}
	type perKey struct {
		cf, cq   conj
		okf, okq bool
		rb, qb   bits
	}
	pk := map[string]perKey{}
	var sortedKeys []string
	for k := range ck {
		sortedKeys = append(sortedKeys, k)
	}
	sort.Strings(sortedKeys)
	for _, k := range sortedKeys {
		cf, okf := gf[k]
		cq, okq := gs[k]
		rb, qb := full, full
		if okf {
			rb = conjBits(cf, probes)
		} else if !(allow && wellKnown[k]) {
			rb = onlyAbsent
		}
		if okq {
			qb = conjBits(cq, probes)
		}
		if rb.and(qb).zero() {
			wantCompat = false
		}
		if okf && okq && rb.and(qb).zero() {
			wantInter = false
		}
		pk[k] = perKey{cf, cq, okf, okq, rb, qb}
		if !okf && okq {
			r.Inc("compat_undefined_key_in_first")
		}
	}
	// key normalisation on the real side
	for k := range gf {
		if !R.Has(k) {
			r.Violate("alias-not-normalised", fmt.Sprintf("Requirements built from %v has no canonical key %q", first, k), map[string]any{"first": first}, nil)
			return
		}
	}
	compat := func(a, b scheduling.Requirements) bool {
		if allow {
			return a.Compatible(b, scheduling.AllowUndefinedWellKnownLabels) == nil
		}
		return a.Compatible(b) == nil
	}
	gotCompat := compat(R, Q)
	gotInter := R.Intersects(Q) == nil
	r.Inc("compat_checks")
	r.Inc("intersects_checks")
	if wantCompat {
		r.Inc("compat_oracle_true")
	} else {
		r.Inc("compat_oracle_false")
	}
	if len(sortedKeys) > 1 {
		r.Inc("compat_multi_key")
	}
	if gotCompat == wantCompat && gotInter == wantInter {
		return
	}
	method, got, want := "Compatible", gotCompat, wantCompat
	if gotCompat == wantCompat {
		method, got, want = "Intersects", gotInter, wantInter
	}
	dir := "accepts-but-no-labelling-exists"
	if !got {
		dir = "rejects-but-a-labelling-exists"
	}
	// attribute the disagreement to the key(s) on which the real answer for that key alone differs from the oracle, and
	// name the class from the conjunct shape on that key only
	classes := map[string][]string{}
	detail := map[string]any{}
	for _, k := range sortedKeys {
		p := pk[k]
		Rk, Qk := scheduling.Requirements{}, scheduling.Requirements{}
		if p.okf {
			Rk[k] = R.Get(k)
		}
		if p.okq {
			Qk[k] = Q.Get(k)
		}
		gk, wk := compat(Rk, Qk), !p.rb.and(p.qb).zero()
		if method == "Intersects" {
			gk, wk = Rk.Intersects(Qk) == nil, !(p.okf && p.okq) || !p.rb.and(p.qb).zero()
		}
		d := map[string]any{"first": p.cf.String(), "second": p.cq.String(), "karpenter_ok": gk, "oracle_ok": wk}
		var views []sideView
		if p.okq {
			a := realAcceptsAbsent(Q.Get(k))
			views = append(views, sideView{false, p.cq, p.qb, a})
			d["second.Operator()"], d["second_absent_label_accepted_by_karpenter"], d["second_admits_absent"] = string(Q.Get(k).Operator()), a, p.qb.has(nP)
		}
		if p.okf {
			a := realAcceptsAbsent(R.Get(k))
			views = append(views, sideView{false, p.cf, p.rb, a})
			d["first.Operator()"], d["first_absent_label_accepted_by_karpenter"], d["first_admits_absent"] = string(R.Get(k).Operator()), a, p.rb.has(nP)
		}
		detail[k] = d
		if gk == wk {
			continue
		}
		cls := ""
		if gk {
			cls = classify(nP, views...)
		}
		if cls == "" {
			kd := "accepts-but-no-labelling-exists"
			if !gk {
				kd = "rejects-but-a-labelling-exists"
			}
			cls = strings.ToLower(method) + "-" + kd + ":" + p.cf.class() + "|" + p.cq.class()
		}
		classes[cls] = append(classes[cls], k)
	}
	if len(classes) == 0 { // every key alone agrees: the disagreement only exists for the combination
		classes[strings.ToLower(method)+"-"+dir+":multi-key-interaction"] = nil
	}
	cs := map[string]any{"first": first, "second": second, "allow_undefined_well_known": allow}
	clsKeys := make([]string, 0, len(classes))
	for c := range classes {
		clsKeys = append(clsKeys, c)
	}
	sort.Strings(clsKeys)
	for _, key := range clsKeys {
		wit := map[string]any{"Compatible_ok": gotCompat, "oracle_compatible": wantCompat, "Intersects_ok": gotInter, "oracle_intersects": wantInter,
			"first_requirements": R.String(), "second_requirements": Q.String(), "disagreeing_keys_of_this_class": classes[key], "per_key": detail}
		what := fmt.Sprintf("Requirements.%s(first=%v, second=%v, allowUndefinedWellKnown=%v) ok=%v but %s; disagreeing key(s) of this class: %v", method, first, second, allow, got, explain(want), classes[key])
		if t, ok := classText[key]; ok {
			what += " — " + t
		}
		report(r, key, baseScore+realism(all), fmt.Sprint(first, second), what, cs, wit)
	}
}

// ---- pod versus concrete node: the whole path NewLabelRequirements(node labels).Compatible(NewStrictPodRequirements(pod))
// (ExistingNode.CanAdd, daemon overhead on existing nodes) judged by the upstream matcher on the same pod and node ----

var pvnKeys = []string{"example.com/a", "example.com/b", keyZone}
var pvnVals = []string{"1", "3", "5", "7", "a", "b", "05"}
var pvnBounds = []string{"0", "2", "4", "5", "6"}

func runPodVsNode(r *mon.Report, rng *rand.Rand, fixed *corev1.Pod, fixedLabels map[string]string, score int) {
	labels := map[string]string{"kubernetes.io/hostname": "n1"}
	pod := fixed
	if pod == nil {
		for _, k := range pvnKeys {
			if rng.Intn(2) == 0 {
				labels[k] = pvnVals[rng.Intn(len(pvnVals))]
			}
		}
		pod = &corev1.Pod{ObjectMeta: metav1.ObjectMeta{Name: "p", Namespace: "default"}}
		if rng.Intn(3) == 0 {
			pod.Spec.NodeSelector = map[string]string{pvnKeys[rng.Intn(len(pvnKeys))]: pvnVals[rng.Intn(len(pvnVals))]}
		}
		var exprs []corev1.NodeSelectorRequirement
		for i, n := 0, 1+rng.Intn(4); i < n; i++ {
			e := corev1.NodeSelectorRequirement{Key: pvnKeys[rng.Intn(2+rng.Intn(2))]}
			switch x := rng.Intn(12); {
			case x < 3:
				e.Operator, e.Values = corev1.NodeSelectorOpIn, randFrom(rng, pvnVals, 1+rng.Intn(3))
			case x < 6:
				e.Operator, e.Values = corev1.NodeSelectorOpNotIn, randFrom(rng, pvnVals, 1+rng.Intn(3))
			case x < 7:
				e.Operator = corev1.NodeSelectorOpExists
			case x < 8:
				e.Operator = corev1.NodeSelectorOpDoesNotExist
			case x < 10:
				e.Operator, e.Values = corev1.NodeSelectorOpGt, randFrom(rng, pvnBounds, 1)
			default:
				e.Operator, e.Values = corev1.NodeSelectorOpLt, randFrom(rng, pvnBounds, 1)
			}
			exprs = append(exprs, e)
		}
		pod.Spec.Affinity = &corev1.Affinity{NodeAffinity: &corev1.NodeAffinity{RequiredDuringSchedulingIgnoredDuringExecution: &corev1.NodeSelector{
			NodeSelectorTerms: []corev1.NodeSelectorTerm{{MatchExpressions: exprs}}}}}
	} else {
		for k, v := range fixedLabels {
			labels[k] = v
		}
	}
	node := &corev1.Node{ObjectMeta: metav1.ObjectMeta{Name: "n1", Labels: labels}}
	up, err := nodeaffinity.GetRequiredNodeAffinity(pod).Match(node)
	if err != nil {
		r.Inc("upstream_rejected_selector")
		return
	}
	// the pod's constraint per key, for the first-principles verdict and for classification
	byKey := map[string]conj{}
	for k, v := range pod.Spec.NodeSelector {
		byKey[k] = append(byKey[k], atom{"In", []string{v}})
	}
	for _, e := range pod.Spec.Affinity.NodeAffinity.RequiredDuringSchedulingIgnoredDuringExecution.NodeSelectorTerms[0].MatchExpressions {
		byKey[e.Key] = append(byKey[e.Key], atom{string(e.Operator), e.Values})
	}
	keys := make([]string, 0, len(byKey))
	for k := range byKey {
		keys = append(keys, k)
	}
	sort.Strings(keys)
	own, failing := true, ""
	for _, k := range keys {
		v, present := labels[k]
		for _, a := range byKey[k] {
			if !oracleAdmits(a, v, present) {
				own = false
				if failing == "" {
					failing = k
				}
			}
		}
	}
	if own != up {
		r.Inconcl("ORACLE SELF-CHECK: upstream required-node-affinity Match=%v but first-principles evaluation=%v for pod %v on labels %v", up, own, byKey, labels)
		r.Inc("oracle_upstream_disagreements")
		return
	}
	nodeReqs := scheduling.NewLabelRequirements(labels)
	podReqs := scheduling.NewStrictPodRequirements(pod)
	got := nodeReqs.Compatible(podReqs) == nil
	r.Inc("pod_vs_node_checks")
	if up {
		r.Inc("pod_vs_node_upstream_matches")
	} else {
		r.Inc("pod_vs_node_upstream_rejects")
	}
	if got == up {
		return
	}
	key := "pod-vs-node-rejects-but-kubernetes-admits"
	if got {
		key = "pod-vs-node-accepts-but-kubernetes-rejects"
		c := byKey[failing]
		_, present := labels[failing]
		ne, _ := nonEmptyExact(c)
		abs := admitsAbsent(c)
		acc := realAcceptsAbsent(podReqs.Get(failing))
		switch {
		case present:
			key += ":label-present/" + c.class()
		case !ne && !abs && acc:
			key = "unsat-conjunction-treated-as-DoesNotExist"
		case ne && !abs && acc && c.hasBound():
			key = "bounded-complement-with-exclusion-reports-NotIn-absent-allowed"
		case ne && !abs && acc:
			key = "exists-and-notin-collapses-to-NotIn-absent-allowed"
		default:
			key += ":label-absent/" + c.class()
		}
	} else {
		key += ":" + byKey[failing].class()
	}
	desc := map[string]string{}
	for _, k := range keys {
		desc[k] = byKey[k].String() + " => Operator()=" + string(podReqs.Get(k).Operator())
	}
	what := fmt.Sprintf("NewLabelRequirements(node labels %v).Compatible(NewStrictPodRequirements(pod)) ok=%v but the upstream kube-scheduler matcher (nodeSelector + required node affinity) says %v; pod constraints per key: %v",
		labels, got, up, desc)
	if t, ok := classText[key]; ok {
		what += " — " + t
	}
	all := conj{}
	for _, k := range keys {
		all = append(all, byKey[k]...)
	}
	report(r, key, score+realism(all), fmt.Sprint(labels, desc), what,
		map[string]any{"node_labels": labels, "pod_nodeSelector": pod.Spec.NodeSelector, "pod_required_term": pod.Spec.Affinity.NodeAffinity.RequiredDuringSchedulingIgnoredDuringExecution.NodeSelectorTerms[0].MatchExpressions},
		map[string]any{"Compatible_ok": got, "upstream_Match": up, "pod_requirements": podReqs.String(), "node_requirements": nodeReqs.String(), "first_unsatisfied_key": failing})
}

func oracleAdmits(a atom, v string, present bool) bool { return oracleBitsOne(a, v, present) }

func randFrom(rng *rand.Rand, pool []string, n int) []string {
	p := rng.Perm(len(pool))
	out := make([]string, 0, n)
	for _, i := range p[:n] {
		out = append(out, pool[i])
	}
	return out
}

func canonicalPod(sel map[string]string, exprs ...corev1.NodeSelectorRequirement) *corev1.Pod {
	return &corev1.Pod{ObjectMeta: metav1.ObjectMeta{Name: "p", Namespace: "default"}, Spec: corev1.PodSpec{NodeSelector: sel,
		Affinity: &corev1.Affinity{NodeAffinity: &corev1.NodeAffinity{RequiredDuringSchedulingIgnoredDuringExecution: &corev1.NodeSelector{
			NodeSelectorTerms: []corev1.NodeSelectorTerm{{MatchExpressions: exprs}}}}}}}
}

func runRandomChunk(r *mon.Report, tier string, idx int, rng *rand.Rand) {
	per := 5000
	if tier == "thorough" {
		per = 100000
	}
	for k := 0; k < per; k++ {
		runRandomAlgebra(r, rng)
		runRandomCompat(r, rng)
		runPodVsNode(r, rng, nil, nil, 10)
		runLabelMap(r, rng)
	}
	r.Eval()
	r.Sig("random-chunk-%d", idx)
}

// ---- construction from a label map (NewLabelRequirements for node labels, NewStrictPodRequirements for a nodeSelector): a
// map is the conjunction of key=value over its entries; deprecated aliases are normalised to the stable key, so an alias
// and its stable key constrain the SAME key. Equal values: exactly that value is admitted. Different values: no value is
// admitted (whether the empty set may pass for "label absent" is the recorded representation finding, not judged here). ----

var lmKeys = []string{"kubernetes.io/arch", "beta.kubernetes.io/arch", keyZone, keyZoneAlias, "node.kubernetes.io/instance-type", "beta.kubernetes.io/instance-type",
	"kubernetes.io/os", "beta.kubernetes.io/os", "example.com/k"}
var lmVals = []string{"a", "b", "c"}

func runLabelMap(r *mon.Report, rng *rand.Rand) {
	L := map[string]string{}
	for _, k := range lmKeys {
		if rng.Intn(2) == 0 {
			L[k] = lmVals[rng.Intn(len(lmVals))]
		}
	}
	want := map[string]map[string]bool{} // stable key -> values assigned to it
	for k, v := range L {
		st := k
		if c, ok := aliasTable[k]; ok {
			st = c
		}
		if want[st] == nil {
			want[st] = map[string]bool{}
		}
		want[st][v] = true
	}
	pod := &corev1.Pod{ObjectMeta: metav1.ObjectMeta{Name: "p", Namespace: "default"}, Spec: corev1.PodSpec{NodeSelector: L}}
	for ctor, reqs := range map[string]scheduling.Requirements{"NewLabelRequirements": scheduling.NewLabelRequirements(L), "NewStrictPodRequirements(nodeSelector)": scheduling.NewStrictPodRequirements(pod)} {
		r.Inc("label_map_constructions")
		for st, vals := range want {
			if len(vals) > 1 {
				r.Inc("label_map_keys_with_conflicting_alias_values")
			}
			if !reqs.Has(st) {
				r.Violate("label-map-construction:key-missing", fmt.Sprintf("%s(%v) has no requirement on %s", ctor, L, st), map[string]any{"labels": L}, nil)
				continue
			}
			q := reqs.Get(st)
			for _, v := range append(append([]string{}, lmVals...), "zz") {
				admit := len(vals) == 1 && vals[v]
				if q.Has(v) != admit {
					r.Violate("label-map-construction:wrong-value-set", fmt.Sprintf("%s(%v): requirement on %s (%s) admits %q = %v, the conjunction of the map's entries on that key (%v) says %v",
						ctor, L, st, q.String(), v, q.Has(v), keysOf(vals), admit), map[string]any{"labels": L, "constructor": ctor}, nil)
					return
				}
			}
		}
	}
}

func keysOf(m map[string]bool) []string {
	var out []string
	for k := range m {
		out = append(out, k)
	}
	sort.Strings(out)
	return out
}

// ---- canonical scenarios (case 0): the everyday shapes of the probe-confirmed suspicions, so that the primary
// witnesses of each class are readable; they go through exactly the same monitors as everything else ----

func runCanonical(r *mon.Report) {
	k := "example.com/team"
	none := []keyed{}
	// nodeSelector team=blue + required affinity team In [red]; the NodePool does not define the key
	checkSets(r, none, []keyed{{k, atom{"In", []string{"blue"}}}, {k, atom{"In", []string{"red"}}}}, false, -10)
	// "has a team label, and it is not a": Exists + NotIn
	checkSets(r, none, []keyed{{k, atom{"Exists", nil}}, {k, atom{"NotIn", []string{"a"}}}}, false, -10)
	// NotIn [7] + Gt 5 (an excluded value inside the range survives the bounds filter; NotIn [a] + Gt 5 does not and is handled correctly)
	checkSets(r, none, []keyed{{"example.com/size", atom{"NotIn", []string{"7"}}}, {"example.com/size", atom{"Gt", []string{"5"}}}}, false, -10)
	checkSets(r, none, []keyed{{"example.com/size", atom{"NotIn", []string{"a"}}}, {"example.com/size", atom{"Gt", []string{"5"}}}}, false, -10)
	// the same three against a node / NodePool that says the label does not exist
	dne := []keyed{{k, atom{"DoesNotExist", nil}}}
	checkSets(r, dne, []keyed{{k, atom{"In", []string{"blue"}}}, {k, atom{"In", []string{"red"}}}}, false, -9)
	checkSets(r, dne, []keyed{{k, atom{"Exists", nil}}, {k, atom{"NotIn", []string{"a"}}}}, false, -9)
	checkSets(r, dne, []keyed{{k, atom{"NotIn", []string{"7"}}}, {k, atom{"Gt", []string{"5"}}}}, false, -9)
	r.Count("canonical_scenarios", 7)
	// the same shapes as real pods against a real node that lacks the label, judged by the upstream matcher
	team := "example.com/team"
	runPodVsNode(r, nil, canonicalPod(map[string]string{team: "blue"}, corev1.NodeSelectorRequirement{Key: team, Operator: corev1.NodeSelectorOpIn, Values: []string{"red"}}), nil, -20)
	runPodVsNode(r, nil, canonicalPod(nil, corev1.NodeSelectorRequirement{Key: team, Operator: corev1.NodeSelectorOpExists},
		corev1.NodeSelectorRequirement{Key: team, Operator: corev1.NodeSelectorOpNotIn, Values: []string{"a"}}), nil, -20)
	runPodVsNode(r, nil, canonicalPod(nil, corev1.NodeSelectorRequirement{Key: "example.com/size", Operator: corev1.NodeSelectorOpGt, Values: []string{"5"}},
		corev1.NodeSelectorRequirement{Key: "example.com/size", Operator: corev1.NodeSelectorOpNotIn, Values: []string{"7"}}), nil, -20)
	r.Count("canonical_scenarios", 3)
	// Gt 4 AND Lt 6 versus NotIn [5]
	ca, cb := conj{{"Gt", []string{"4"}}, {"Lt", []string{"6"}}}, conj{{"NotIn", []string{"5"}}}
	all := append(append(conj{}, ca...), cb...)
	probes := buildProbes(all, 1)
	qa := newReq(keyCustom, ca[0], nil).Intersection(newReq(keyCustom, ca[1], nil))
	qb := newReq(keyCustom, cb[0], nil)
	delete(r.Extra, "diag_noncanonical_only_example")
	checkOverlap(r, probes, len(probes), qa, qb, ca, cb, conjBits(all, probes))
	if ex, ok := r.Extra["diag_noncanonical_only_example"]; ok {
		r.Extra["diag_gt4_lt6_vs_notin5"] = ex
	}
	r.Inc("canonical_scenarios")
}

// ---- table self-check (once) ----

func checkTables(r *mon.Report) {
	if len(v1.NormalizedLabels) != len(aliasTable) {
		r.Violate("alias-table-changed", fmt.Sprintf("NormalizedLabels has %d entries, documented table has %d", len(v1.NormalizedLabels), len(aliasTable)), nil, v1.NormalizedLabels)
	}
	for a, c := range aliasTable {
		if v1.NormalizedLabels[a] != c {
			r.Violate("alias-table-changed", fmt.Sprintf("NormalizedLabels[%q]=%q, documented %q", a, v1.NormalizedLabels[a], c), nil, nil)
		}
	}
	for k := range wellKnown {
		if !v1.WellKnownLabels.Has(k) {
			r.Inconcl("well-known label table differs from the harness copy: %s missing", k)
		}
	}
	if v1.WellKnownLabels.Len() != len(wellKnown) {
		r.Inconcl("well-known label table differs from the harness copy: %d vs %d entries", v1.WellKnownLabels.Len(), len(wellKnown))
	}
	r.Inc("table_checks")
}

// ---- registration ----

func randomChunks(tier string) int {
	if tier == "thorough" {
		return 64
	}
	return 32
}

func cases(tier string) int { return algebraShards + compatShards + randomChunks(tier) }

func run(r *mon.Report, tier string, idx int, rng *rand.Rand) {
	panicked, pv, stack := mon.Guard(func() {
		switch {
		case idx < algebraShards:
			if idx == 0 {
				checkTables(r)
				runCanonical(r)
			}
			runAlgebraShard(r, tier, idx)
		case idx < algebraShards+compatShards:
			runCompatShard(r, tier, idx-algebraShards)
		default:
			runRandomChunk(r, tier, idx, rng)
		}
	})
	flush(r)
	if panicked {
		key := "panic-in-requirement-algebra"
		if !strings.Contains(stack, "sigs.k8s.io/karpenter/pkg/scheduling") {
			r.Inconcl("harness panic in case %d: %v\n%s", idx, pv, stack)
			r.Eval()
			return
		}
		r.Violate(key, fmt.Sprintf("panic inside the requirement algebra: %v", pv), map[string]any{"case": idx}, stack)
		r.Eval()
	}
}

func init() {
	reg.Register(&reg.Prop{
		ID: "C12", Level: "exploration",
		Rule: "case kinds: (1) 64 algebra shards that together enumerate EVERY atom (8 operators x argument lists of the tier's value universe), EVERY ordered pair and EVERY ordered triple of atoms against the real scheduling.Requirement (Has, Intersection, HasIntersection, Len, Operator, MinValues, alias keys, Requirements.Add/Get); " +
			"(2) 64 compat shards that together enumerate every pair of single-key requirement sets {undefined | 1 atom | 2 atoms} for Requirements.Compatible / IsCompatible / Intersects (all pairs on a custom key under the strict treatment; every pair with an undefined key plus a fixed 1-in-11 sample under the other five key-kind/option configurations); " +
			"(3) chunks of random wider inputs (value lists up to 4, arbitrary bounds incl. int64 limits, n-ary intersections in random order/bracketing, 1-3-key requirement sets with aliases). " +
			"A case is non-trivial when at least one real answer was compared with the oracle; distinct by shard / chunk.",
		Cases: cases, Run: run,
		MinObserved: map[string]int{
			"atoms_checked": 90, "pairs_checked": 5000, "triples_checked": 100000, "overlap_checks": 100000, "overlap_semantically_empty": 1000, "overlap_semantically_nonempty": 1000,
			"commutativity_checks": 5000, "idempotence_checks": 5000, "minvalues_checks": 1000, "add_vs_intersection_checks": 5000, "alias_checks": 100,
			"upstream_crosschecked_selectors": 50, "compat_checks": 100000, "compat_oracle_true": 1000, "compat_oracle_false": 1000,
			"compat_undefined_key_in_first": 1000, "compat_undefined_key_allowed_by_option": 100, "compat_alias_vs_canonical_key": 100, "compat_multi_key": 1000,
			"associativity_random_folds": 1000, "table_checks": 1, "canonical_scenarios": 11,
			"pod_vs_node_checks": 10000, "pod_vs_node_upstream_matches": 1000, "pod_vs_node_upstream_rejects": 1000,
		},
	})
}
