package common

import (
	"fmt"
	"math"

	corev1 "k8s.io/api/core/v1"
	"k8s.io/apimachinery/pkg/types"
	"k8s.io/apimachinery/pkg/util/sets"

	provscheduling "sigs.k8s.io/karpenter/pkg/controllers/provisioning/scheduling"
	"sigs.k8s.io/karpenter/pkg/operator/options"

	"verif/world"
)

// SolveRaw runs the same steps as Provisioner.Schedule up to and including Scheduler.Solve and returns the
// results BEFORE instance-type truncation (so the scheduler's full option lists are observable at the
// public API boundary without a source hook). The caller truncates with Results.TruncateInstanceTypes.
func SolveRaw(e *world.Env) (provscheduling.Results, []*corev1.Pod, error) {
	nodes := e.Cluster.DeepCopyNodes()
	pending, err := e.Prov.GetPendingPods(e.Ctx)
	if err != nil {
		return provscheduling.Results{}, nil, err
	}
	deletingPods, err := nodes.Deleting().CurrentlyReschedulablePods(e.Ctx, e.API.Client, e.Clock, e.Recorder)
	if err != nil {
		return provscheduling.Results{}, nil, err
	}
	pods := append(pending, deletingPods...)
	if len(pods) == 0 {
		return provscheduling.Results{}, nil, nil
	}
	uids := sets.New[types.UID]()
	for _, p := range deletingPods {
		uids.Insert(p.UID)
	}
	o := options.FromContext(e.Ctx)
	opts := []provscheduling.Options{
		provscheduling.DisableReservedCapacityFallback,
		provscheduling.NumConcurrentReconciles(int(math.Ceil(float64(o.CPURequests) / 1000.0))),
		provscheduling.MinValuesPolicy(o.MinValuesPolicy),
	}
	if o.PreferencePolicy == options.PreferencePolicyIgnore {
		opts = append(opts, provscheduling.IgnorePreferences)
	}
	s, err := e.Prov.NewScheduler(e.Ctx, pods, nodes.Active(), uids, opts...)
	if err != nil {
		return provscheduling.Results{}, pods, fmt.Errorf("creating scheduler: %w", err)
	}
	res, err := s.Solve(e.Ctx, pods)
	return res, pods, err
}
