package common

import (
	"context"
	"fmt"
	"math/rand"
	"sort"
	"time"

	"github.com/google/uuid"
	corev1 "k8s.io/api/core/v1"
	metav1 "k8s.io/apimachinery/pkg/apis/meta/v1"
	"k8s.io/apimachinery/pkg/types"
	"sigs.k8s.io/controller-runtime/pkg/client"

	v1 "sigs.k8s.io/karpenter/pkg/apis/v1"
	"sigs.k8s.io/karpenter/pkg/cloudprovider"
	"sigs.k8s.io/karpenter/pkg/controllers/disruption"
	ncdisruption "sigs.k8s.io/karpenter/pkg/controllers/nodeclaim/disruption"
	"sigs.k8s.io/karpenter/pkg/controllers/nodeclaim/podevents"
	"sigs.k8s.io/karpenter/pkg/controllers/nodepool/hash"

	"verif/gen"
	"verif/mon"
	"verif/world"
)

// DCfg tunes the generated disruption world.
type DCfg struct {
	Scenario         ScenarioCfg
	Rounds           int     // provisioning rounds used to grow the cluster
	PodsPerRound     int     // max pods per round
	PDeletePod       float64 // fraction of workload pods removed afterwards (creates empty / underutilised nodes)
	PDrift           float64 // probability that a NodeClaim is reported drifted by the provider
	Policies         []v1.ConsolidationPolicy
	ConsolidateAfter []string
	Budgets          func(rng *rand.Rand) []v1.Budget // nil = 100%
	PTGP             float64
	PNotReady        float64
	PUninitialized   float64
	SmallPods        bool
	OnePodPerNode    bool                // every workload pod claims the same host port => one workload pod per node => many nodes
	PodHook          func(p *corev1.Pod) // last word on every workload pod before it is created
}

func DefaultDCfg() DCfg {
	sc := DefaultScenarioCfg()
	sc.MaxDaemons = 1
	sc.Unmanaged = false
	sc.Pod.PPreferred = 0.1
	sc.Catalog.MinTypes, sc.Catalog.MaxTypes = 5, 10
	sc.Catalog.PUnavailable = 0.1
	sc.Pool.PTaint = 0.1
	return DCfg{Scenario: sc, Rounds: 3, PodsPerRound: 5, PDeletePod: 0.5, PDrift: 0.15,
		Policies:         []v1.ConsolidationPolicy{v1.ConsolidationPolicyWhenEmptyOrUnderutilized, v1.ConsolidationPolicyWhenEmptyOrUnderutilized, v1.ConsolidationPolicyWhenEmpty, v1.ConsolidationPolicyBalanced},
		ConsolidateAfter: []string{"0s", "0s", "30s", "Never"}, PTGP: 0.3}
}

// DWorld is a Scenario plus the real disruption machinery.
type DWorld struct {
	*Scenario
	Queue *disruption.Queue
	Ctrl  *disruption.Controller
	NCDis *ncdisruption.Controller
	Hash  *hash.Controller
	PodEv *podevents.Controller
	seen  map[uuid.UUID]bool
	// Nominations records the virtual instants at which the harness observed a node being nominated.
	Started time.Time
}

func (d *DWorld) buildControllers() {
	e := d.Env
	d.Queue = disruption.NewQueue(e.API.Client, e.Recorder, e.Cluster, e.Clock, e.Prov)
	d.Ctrl = disruption.NewController(e.Clock, e.API.Client, e.Prov, e.Provider, e.Recorder, e.Cluster, d.Queue, e.ClusterCost)
	d.NCDis = ncdisruption.NewController(e.Clock, e.API.Client, e.Provider)
	d.Hash = hash.NewController(e.API.Client, e.Provider)
	d.PodEv = podevents.NewController(e.Clock, e.API.Client, e.Provider)
}

// BuildDisruption generates a cluster whose nodes were all produced by the real pipeline.
func BuildDisruption(rng *rand.Rand, cfg DCfg) *DWorld {
	s := Build(rng, cfg.Scenario)
	d := &DWorld{Scenario: s, seen: map[uuid.UUID]bool{}}
	e := s.Env
	d.buildControllers()
	e.OnRestart = append(e.OnRestart, d.buildControllers)
	// disruption settings per pool
	for _, np := range s.Pools {
		cur := &v1.NodePool{}
		if e.API.Raw.Get(context.Background(), types.NamespacedName{Name: np.Name}, cur) != nil {
			continue
		}
		cur.Spec.Disruption.ConsolidationPolicy = cfg.Policies[rng.Intn(len(cfg.Policies))]
		cur.Spec.Disruption.ConsolidateAfter = v1.MustParseNillableDuration(cfg.ConsolidateAfter[rng.Intn(len(cfg.ConsolidateAfter))])
		if cfg.Budgets != nil {
			cur.Spec.Disruption.Budgets = cfg.Budgets(rng)
		} else {
			cur.Spec.Disruption.Budgets = []v1.Budget{{Nodes: "100%"}}
		}
		if rng.Float64() < cfg.PTGP {
			cur.Spec.Template.Spec.TerminationGracePeriod = &metav1.Duration{Duration: []time.Duration{time.Minute, 10 * time.Minute, time.Hour}[rng.Intn(3)]}
		}
		e.Apply(cur)
		*np = *cur
	}
	// grow
	podCfg := cfg.Scenario.Pod
	if cfg.SmallPods {
		podCfg.MaxCPUMilli = 500
	}
	stagesInit := []world.Stage{world.StageInitialized}
	for round := 0; round < cfg.Rounds; round++ {
		n := 1 + rng.Intn(cfg.PodsPerRound)
		var pods []*corev1.Pod
		for i := 0; i < n; i++ {
			p := gen.RandomPod(rng, s.NextPodName("w"), podCfg)
			gen.WithOwner("ReplicaSet", "rs-"+p.Name)(p)
			if cfg.OnePodPerNode {
				p.Spec.Containers[0].Ports = nil
				gen.WithHostPort(9000, corev1.ProtocolTCP, "")(p)
			}
			if cfg.PodHook != nil {
				cfg.PodHook(p)
			}
			pods = append(pods, p)
		}
		stages := stagesInit
		if round == cfg.Rounds-1 && rng.Float64() < cfg.PUninitialized {
			stages = []world.Stage{world.StageLaunched, world.StageRegistered, world.StageInitialized}
		}
		s.GrowBindAll(rng, pods, stages)
		e.Clock.Step(time.Duration(30+rng.Intn(600)) * time.Second)
	}
	// remove pending leftovers and a fraction of the workload
	pods := &corev1.PodList{}
	_ = e.API.Raw.List(context.Background(), pods)
	for i := range pods.Items {
		p := &pods.Items[i]
		isDaemon := false
		for _, or := range p.OwnerReferences {
			if or.Kind == "DaemonSet" {
				isDaemon = true
			}
		}
		if isDaemon {
			continue
		}
		if p.Spec.NodeName == "" || rng.Float64() < cfg.PDeletePod {
			p.Finalizers = nil
			_ = e.API.Raw.Update(context.Background(), p)
			_ = e.API.Raw.Delete(context.Background(), p)
		}
	}
	// node conditions / drift
	for _, name := range e.ClaimNames() {
		if rng.Float64() < cfg.PDrift {
			e.Provider.Drift[name] = cloudprovider.DriftReason("ProviderDrifted")
		}
	}
	if cfg.PNotReady > 0 {
		nodes := &corev1.NodeList{}
		_ = e.API.Raw.List(context.Background(), nodes)
		for _, n := range nodes.Items {
			if rng.Float64() < cfg.PNotReady {
				e.KubeletSetReady(n.Name, []string{"False", "False", "Unknown", "absent"}[rng.Intn(4)])
			}
		}
	}
	e.Clock.Step(time.Duration(60+rng.Intn(600)) * time.Second)
	d.RefreshConditions()
	_ = e.SyncState()
	e.Cluster.Synced(e.Ctx)
	d.Started = e.Clock.Now()
	return d
}

// GrowBindAll is Grow with every pod bound once its node is registered (no pending leftovers by chance).
func (s *Scenario) GrowBindAll(rng *rand.Rand, pods []*corev1.Pod, stages []world.Stage) {
	e := s.Env
	for _, p := range pods {
		e.Apply(p)
	}
	_ = e.SyncState()
	res, err := e.Prov.Schedule(e.Ctx)
	if err != nil {
		return
	}
	for _, en := range res.ExistingNodes {
		if en.Node == nil || !en.Initialized() {
			continue
		}
		for _, p := range en.Pods {
			e.Bind(p, en.Node.Name)
		}
	}
	for _, nc := range res.NewNodeClaims {
		name, err := e.Prov.Create(e.Ctx, nc)
		if err != nil {
			continue
		}
		st := stages[rng.Intn(len(stages))]
		inst, nodeName, err := e.DriveClaim(name, st)
		if err != nil || inst == nil {
			s.NodeInfo[name] = "launch-failed"
			continue
		}
		s.NodeInfo[name] = fmt.Sprintf("stage=%d type=%s price=%.4f %s/%s", st, inst.Type.Name, inst.Offering.Price, inst.Offering.Zone(), inst.Offering.CapacityType())
		if nodeName != "" && st == world.StageInitialized {
			for _, p := range nc.Pods {
				e.Bind(p, nodeName)
			}
			s.StartDaemons(nodeName)
		}
	}
	_ = e.SyncState()
}

// RefreshConditions runs the real nodepool hash and nodeclaim disruption controllers (Consolidatable / Drifted).
func (d *DWorld) RefreshConditions() {
	e := d.Env
	pools := &v1.NodePoolList{}
	_ = e.API.Raw.List(context.Background(), pools)
	for i := range pools.Items {
		_, _ = d.Hash.Reconcile(e.Ctx, &pools.Items[i])
	}
	for _, name := range e.ClaimNames() {
		nc := &v1.NodeClaim{}
		if e.API.Raw.Get(context.Background(), types.NamespacedName{Name: name}, nc) == nil {
			_, _ = d.NCDis.Reconcile(e.Ctx, nc)
		}
	}
}

// Round runs one reconcile of the real disruption controller and returns the commands that entered the
// orchestration queue during it (ids unseen before). Panics are returned, not propagated.
func (d *DWorld) Round() (newCmds []*disruption.Command, err error, panicked bool, pv any, stack string) {
	e := d.Env
	panicked, pv, stack = mon.Guard(func() { _, err = d.Ctrl.Reconcile(e.Ctx) })
	for _, c := range d.Queue.GetCommands() {
		if !d.seen[c.ID] {
			d.seen[c.ID] = true
			newCmds = append(newCmds, c)
		}
	}
	sort.Slice(newCmds, func(i, j int) bool { return newCmds[i].ID.String() < newCmds[j].ID.String() })
	return
}

// ReconcileQueue runs the orchestration queue's reconciler for a command (keyed by its first candidate).
func (d *DWorld) ReconcileQueue(cmd *disruption.Command) error {
	e := d.Env
	if len(cmd.Candidates) == 0 {
		return nil
	}
	nc := &v1.NodeClaim{}
	if e.API.Raw.Get(context.Background(), client.ObjectKeyFromObject(cmd.Candidates[0].NodeClaim), nc) != nil {
		nc = cmd.Candidates[0].NodeClaim.DeepCopy()
	}
	_, err := d.Queue.Reconcile(e.Ctx, nc)
	return err
}

// NodeOfClaim returns the Node registered for a NodeClaim (nil if none).
func (d *DWorld) NodeOfClaim(nc *v1.NodeClaim) *corev1.Node {
	nodes := &corev1.NodeList{}
	_ = d.Env.API.Raw.List(context.Background(), nodes)
	for i := range nodes.Items {
		if nodes.Items[i].Spec.ProviderID == nc.Status.ProviderID && nc.Status.ProviderID != "" {
			return &nodes.Items[i]
		}
	}
	return nil
}

// PodsOn lists the pods bound to a node (API truth).
func (d *DWorld) PodsOn(node string) []*corev1.Pod {
	pods := &corev1.PodList{}
	_ = d.Env.API.Raw.List(context.Background(), pods, client.MatchingFields{"spec.nodeName": node})
	var out []*corev1.Pod
	for i := range pods.Items {
		out = append(out, &pods.Items[i])
	}
	return out
}
