// Package common builds the generated worlds several properties share.
package common

import (
	"context"
	"fmt"
	"math/rand"
	"sort"

	appsv1 "k8s.io/api/apps/v1"
	corev1 "k8s.io/api/core/v1"
	metav1 "k8s.io/apimachinery/pkg/apis/meta/v1"
	"k8s.io/apimachinery/pkg/types"

	v1 "sigs.k8s.io/karpenter/pkg/apis/v1"
	"sigs.k8s.io/karpenter/pkg/cloudprovider"
	"sigs.k8s.io/karpenter/pkg/operator/options"
	"sigs.k8s.io/karpenter/pkg/test"

	"verif/gen"
	"verif/oracle"
	"verif/world"
)

// ScenarioCfg selects what a generated world contains.
type ScenarioCfg struct {
	Catalog        gen.CatalogCfg
	Pool           gen.PoolCfg
	Pod            gen.PodCfg
	MinPools       int
	MaxPools       int
	PerPoolCatalog bool
	MaxDaemons     int
	// SelectiveDaemons: some daemonsets select on instance-level / well-known labels (an instance type name, a zone, arch,
	// a well-known label no instance type defines) and request a sizeable amount, so that which nodes they run on matters
	SelectiveDaemons bool
	MaxSeedPods      int  // pods used to grow the initial managed nodes through the real pipeline
	Unmanaged        bool // may add a hand-built unmanaged node
	Stages           []world.Stage
	Options          test.OptionsFields
	Weights          bool
}

func DefaultScenarioCfg() ScenarioCfg {
	return ScenarioCfg{Catalog: gen.DefaultCatalogCfg(), Pool: gen.DefaultPoolCfg(), Pod: gen.DefaultPodCfg(), MinPools: 1, MaxPools: 3,
		MaxDaemons: 2, MaxSeedPods: 6, Unmanaged: true,
		Stages: []world.Stage{world.StageLaunched, world.StageNodeAppeared, world.StageRegistered, world.StageInitialized, world.StageInitialized}}
}

// Scenario is a built world plus its serialisable description.
type Scenario struct {
	Env      *world.Env
	Pools    []*v1.NodePool
	Types    map[string][]*cloudprovider.InstanceType
	Specs    map[string][]gen.TypeSpec
	Daemons  []*appsv1.DaemonSet
	Desc     map[string]any
	NodeInfo map[string]string // node/claim name -> stage description
	podSeq   int
}

// RandomOptions draws the configuration dimensions the properties quantify over.
func RandomOptions(rng *rand.Rand) (test.OptionsFields, map[string]any) {
	pp := []options.PreferencePolicy{options.PreferencePolicyRespect, options.PreferencePolicyIgnore}[rng.Intn(2)]
	mv := []options.MinValuesPolicy{options.MinValuesPolicyStrict, options.MinValuesPolicyBestEffort}[rng.Intn(2)]
	cpu := []int64{1000, 2000, 4000, 8000}[rng.Intn(4)]
	rc := rng.Intn(2) == 0
	return test.OptionsFields{PreferencePolicy: &pp, MinValuesPolicy: &mv, CPURequests: &cpu, FeatureGates: test.FeatureGates{ReservedCapacity: &rc}},
		map[string]any{"preferencePolicy": string(pp), "minValuesPolicy": string(mv), "parallelism": cpu / 1000, "reservedCapacity": rc}
}

// typeLabels returns the concrete labels of an instance type launched with the given offering.
func TypeLabels(it *cloudprovider.InstanceType, of *cloudprovider.Offering) map[string]string {
	l := map[string]string{}
	for k, r := range it.Requirements {
		if r.Operator() == corev1.NodeSelectorOpIn && len(r.Values()) == 1 {
			l[k] = r.Values()[0]
		}
	}
	if of != nil {
		for k, r := range of.Requirements {
			if r.Operator() == corev1.NodeSelectorOpIn && len(r.Values()) == 1 {
				l[k] = r.Values()[0]
			}
		}
	}
	return l
}

// poolFeasible: at least one (type, available offering) satisfies the pool's requirements on the keys the type defines.
func poolFeasible(np *v1.NodePool, its []*cloudprovider.InstanceType) bool {
	for _, it := range its {
		for _, of := range it.Offerings.Available() {
			l := TypeLabels(it, of)
			ok := true
			for _, r := range np.Spec.Template.Spec.Requirements {
				if _, defined := it.Requirements[r.Key]; !defined {
					if _, od := of.Requirements[r.Key]; !od {
						continue // custom label: comes from the NodeClaim itself
					}
				}
				v, present := l[r.Key]
				if !oracle.Admits(string(r.Operator), r.Values, v, present) {
					ok = false
					break
				}
			}
			if ok {
				return true
			}
		}
	}
	return false
}

// Build generates a world.
func Build(rng *rand.Rand, cfg ScenarioCfg) *Scenario {
	s := &Scenario{Types: map[string][]*cloudprovider.InstanceType{}, Specs: map[string][]gen.TypeSpec{}, Desc: map[string]any{}, NodeInfo: map[string]string{}}
	s.Env = world.NewEnv(rng, cfg.Options)
	e := s.Env
	e.Apply(gen.NodeClass())
	shared, sharedSpecs := gen.Catalog(rng, cfg.Catalog, "")
	e.Provider.Default = shared
	s.Types[""] = shared
	s.Specs[""] = sharedSpecs
	npools := cfg.MinPools + rng.Intn(cfg.MaxPools-cfg.MinPools+1)
	for i := 0; i < npools; i++ {
		name := fmt.Sprintf("pool-%d", i)
		its := shared
		if cfg.PerPoolCatalog && rng.Intn(2) == 0 {
			var specs []gen.TypeSpec
			its, specs = gen.Catalog(rng, cfg.Catalog, fmt.Sprintf("p%d", i))
			e.Provider.Catalog[name] = its
			s.Specs[name] = specs
		}
		s.Types[name] = its
		var np *v1.NodePool
		for try := 0; try < 8; try++ {
			np = gen.NodePool(rng, name, cfg.Pool)
			if poolFeasible(np, its) {
				break
			}
		}
		if cfg.Weights && rng.Intn(3) != 0 {
			w := int32(1 + rng.Intn(4)*10)
			np.Spec.Weight = &w
		}
		e.Apply(np)
		s.Pools = append(s.Pools, np)
	}
	nd := 0
	if cfg.MaxDaemons > 0 {
		nd = rng.Intn(cfg.MaxDaemons + 1)
	}
	for i := 0; i < nd; i++ {
		var opts []gen.PodOpt
		// daemonsets select on NodePool-level labels only (see DESIGN C01/C04 soundness note)
		switch rng.Intn(4) {
		case 0:
			opts = append(opts, gen.WithNodeSelector(v1.NodePoolLabelKey, s.Pools[rng.Intn(len(s.Pools))].Name))
		case 1:
			opts = append(opts, gen.WithToleration(corev1.Toleration{Operator: corev1.TolerationOpExists}))
		case 2:
			opts = append(opts, gen.WithHostPort(int32(8000+rng.Intn(2)), corev1.ProtocolTCP, ""))
		}
		ds := gen.DaemonSet(fmt.Sprintf("ds-%d", i), []int64{50, 100, 200}[rng.Intn(3)], []int64{32, 64, 128}[rng.Intn(3)], opts...)
		e.Apply(ds)
		s.Daemons = append(s.Daemons, ds)
	}
	if cfg.SelectiveDaemons && rng.Intn(2) == 0 {
		var opt gen.PodOpt
		what := ""
		switch rng.Intn(4) {
		case 0:
			// a well-known label that no instance type of the catalog defines (a device plugin for other hardware)
			opt, what = gen.WithNodeSelector(corev1.LabelWindowsBuild, "10.0.17763"), "windows-build (defined nowhere)"
		case 1:
			it := shared[rng.Intn(len(shared))]
			opt, what = gen.WithNodeSelector(corev1.LabelInstanceTypeStable, it.Name), "instance type "+it.Name
		case 2:
			z := gen.Zones[rng.Intn(len(gen.Zones))]
			opt, what = gen.WithRequiredTerms([]corev1.NodeSelectorRequirement{gen.NSR(corev1.LabelTopologyZone, corev1.NodeSelectorOpIn, z)}), "zone "+z
		default:
			opt, what = gen.WithRequiredTerms([]corev1.NodeSelectorRequirement{gen.NSR(corev1.LabelArchStable, corev1.NodeSelectorOpIn, "arm64")}), "arch arm64"
		}
		ds := gen.DaemonSet("ds-selective", []int64{300, 500, 1000}[rng.Intn(3)], []int64{64, 256, 512}[rng.Intn(3)], opt, gen.WithToleration(corev1.Toleration{Operator: corev1.TolerationOpExists}))
		e.Apply(ds)
		s.Daemons = append(s.Daemons, ds)
		s.Desc["selectiveDaemonSet"] = what
		if rng.Intn(3) == 0 {
			// a second team runs a DaemonSet of the same NAME in its own namespace, for other nodes and with other requests
			// (no pods of either exist yet: the provisioner works from the templates)
			var opt2 gen.PodOpt
			what2 := ""
			switch rng.Intn(3) {
			case 0:
				it := shared[rng.Intn(len(shared))]
				opt2, what2 = gen.WithNodeSelector(corev1.LabelInstanceTypeStable, it.Name), "instance type "+it.Name
			case 1:
				opt2, what2 = gen.WithRequiredTerms([]corev1.NodeSelectorRequirement{gen.NSR(corev1.LabelArchStable, corev1.NodeSelectorOpIn, "amd64")}), "arch amd64"
			default:
				opt2, what2 = gen.WithRequiredTerms([]corev1.NodeSelectorRequirement{gen.NSR(corev1.LabelInstanceTypeStable, corev1.NodeSelectorOpNotIn, shared[rng.Intn(len(shared))].Name)}), "all but one instance type"
			}
			twin := gen.DaemonSet("ds-selective", []int64{50, 1500, 2500}[rng.Intn(3)], []int64{32, 1024, 2048}[rng.Intn(3)], opt2, gen.WithToleration(corev1.Toleration{Operator: corev1.TolerationOpExists}))
			twin.Namespace = "team-b"
			twin.UID = "DaemonSet-team-b-ds-selective"
			e.Apply(twin)
			s.Daemons = append(s.Daemons, twin)
			s.Desc["selectiveDaemonSetTwinInOtherNamespace"] = what2
		}
	}
	s.describe(cfg)
	return s
}

func (s *Scenario) describe(cfg ScenarioCfg) {
	var pools []map[string]any
	for _, np := range s.Pools {
		pools = append(pools, map[string]any{"name": np.Name, "requirements": np.Spec.Template.Spec.Requirements, "taints": np.Spec.Template.Spec.Taints,
			"labels": np.Spec.Template.Labels, "weight": np.Spec.Weight, "limits": np.Spec.Limits})
	}
	s.Desc["pools"] = pools
	s.Desc["catalogs"] = s.Specs
	var ds []map[string]any
	for _, d := range s.Daemons {
		ds = append(ds, map[string]any{"name": d.Name, "spec": d.Spec.Template.Spec})
	}
	s.Desc["daemonsets"] = ds
}

// NextPodName returns a fresh pod name.
func (s *Scenario) NextPodName(prefix string) string {
	s.podSeq++
	return fmt.Sprintf("%s%d", prefix, s.podSeq)
}

// DaemonPodTemplates returns one pod per DaemonSet built from its template (what would run on a node).
func (s *Scenario) DaemonPodTemplates() []*corev1.Pod {
	var out []*corev1.Pod
	for _, d := range s.Daemons {
		p := &corev1.Pod{ObjectMeta: metav1.ObjectMeta{Name: "daemon-" + d.Name, Namespace: d.Namespace, Labels: d.Spec.Template.Labels,
			OwnerReferences: []metav1.OwnerReference{{APIVersion: "apps/v1", Kind: "DaemonSet", Name: d.Name, UID: d.UID}}}, Spec: *d.Spec.Template.Spec.DeepCopy()}
		out = append(out, p)
	}
	return out
}

// Grow provisions the given pods through the real pipeline (Schedule → CreateNodeClaims → lifecycle + kubelet
// to a PRNG-chosen stage → bind pods on registered nodes, start daemon pods) so that initial states are ones
// Karpenter itself produces. Returns the number of NodeClaims created.
func (s *Scenario) Grow(rng *rand.Rand, pods []*corev1.Pod, stages []world.Stage) int {
	e := s.Env
	for _, p := range pods {
		e.Apply(p)
	}
	_ = e.SyncState()
	res, err := e.Prov.Schedule(e.Ctx)
	if err != nil {
		return 0
	}
	created := 0
	for _, nc := range res.NewNodeClaims {
		name, err := e.Prov.Create(e.Ctx, nc)
		if err != nil {
			continue
		}
		created++
		st := stages[rng.Intn(len(stages))]
		inst, nodeName, err := e.DriveClaim(name, st)
		if err != nil || inst == nil {
			s.NodeInfo[name] = "launch-failed"
			continue
		}
		s.NodeInfo[name] = fmt.Sprintf("stage=%d type=%s", st, inst.Type.Name)
		if nodeName != "" && st >= world.StageRegistered {
			for _, p := range nc.Pods {
				if rng.Intn(5) != 0 { // some pods stay pending (not yet bound)
					e.Bind(p, nodeName)
				}
			}
			if st == world.StageInitialized {
				s.StartDaemons(nodeName)
			}
		}
	}
	_ = e.SyncState()
	return created
}

// StartDaemons creates the daemon pods that are admissible on the node (daemonset controller + kubelet).
func (s *Scenario) StartDaemons(nodeName string) {
	e := s.Env
	n := &corev1.Node{}
	if e.API.Raw.Get(context.Background(), types.NamespacedName{Name: nodeName}, n) != nil {
		return
	}
	cn := oracle.ConcreteNode{Name: n.Name, Labels: n.Labels, Taints: n.Spec.Taints, Allocatable: n.Status.Allocatable}
	for _, d := range s.DaemonPodTemplates() {
		if !oracle.DaemonAdmissible(d, cn) {
			continue
		}
		d.Name = fmt.Sprintf("%s-%s", d.Name, nodeName)
		d.UID = types.UID("pod-" + d.Name)
		if d.Namespace != "default" {
			d.UID = types.UID("pod-" + d.Namespace + "-" + d.Name)
		}
		gen.Bound(nodeName, e.Clock.Now())(d)
		e.Apply(d)
	}
}

// Pending creates n random pending pods and applies them.
func (s *Scenario) Pending(rng *rand.Rand, n int, cfg gen.PodCfg) []*corev1.Pod {
	var out []*corev1.Pod
	for i := 0; i < n; i++ {
		p := gen.RandomPod(rng, s.NextPodName("p"), cfg)
		s.Env.Apply(p)
		out = append(out, p)
	}
	return out
}

// AddUnmanagedNode hand-builds a node Karpenter does not manage, optionally with a bound pod.
func (s *Scenario) AddUnmanagedNode(rng *rand.Rand) *corev1.Node {
	e := s.Env
	name := fmt.Sprintf("unmanaged-%d", rng.Intn(1000))
	cpu := []string{"2", "4", "8"}[rng.Intn(3)]
	n := &corev1.Node{
		ObjectMeta: metav1.ObjectMeta{Name: name, Labels: map[string]string{corev1.LabelHostname: name, corev1.LabelTopologyZone: gen.Zones[rng.Intn(3)],
			corev1.LabelArchStable: v1.ArchitectureAmd64, corev1.LabelOSStable: "linux"}},
		Spec: corev1.NodeSpec{ProviderID: "unmanaged://" + name},
		Status: corev1.NodeStatus{Phase: corev1.NodeRunning,
			Capacity:    corev1.ResourceList{corev1.ResourceCPU: gen.Q(cpu), corev1.ResourceMemory: gen.Q("8Gi"), corev1.ResourcePods: gen.Q("10")},
			Allocatable: corev1.ResourceList{corev1.ResourceCPU: gen.Q(cpu), corev1.ResourceMemory: gen.Q("7Gi"), corev1.ResourcePods: gen.Q("10")},
			Conditions:  []corev1.NodeCondition{{Type: corev1.NodeReady, Status: corev1.ConditionTrue}}},
	}
	if rng.Intn(3) == 0 {
		n.Spec.Taints = []corev1.Taint{{Key: "dedicated", Value: "x", Effect: corev1.TaintEffectNoSchedule}}
	}
	e.Apply(n)
	s.StartDaemons(name)
	if rng.Intn(2) == 0 {
		p := gen.Pod(s.NextPodName("u"), 500, 256, gen.Bound(name, e.Clock.Now()))
		if rng.Intn(2) == 0 {
			gen.WithHostPort(8000, corev1.ProtocolTCP, "")(p)
		}
		e.Apply(p)
	}
	return n
}

// SortedKeys helper.
func SortedKeys[V any](m map[string]V) []string {
	out := make([]string, 0, len(m))
	for k := range m {
		out = append(out, k)
	}
	sort.Strings(out)
	return out
}
