package common

import (
	"context"
	"fmt"
	"sort"

	corev1 "k8s.io/api/core/v1"
	"k8s.io/apimachinery/pkg/types"
	"sigs.k8s.io/controller-runtime/pkg/client"

	v1 "sigs.k8s.io/karpenter/pkg/apis/v1"
	"sigs.k8s.io/karpenter/pkg/cloudprovider"
	provscheduling "sigs.k8s.io/karpenter/pkg/controllers/provisioning/scheduling"
	"sigs.k8s.io/karpenter/pkg/scheduling"

	"verif/oracle"
	"verif/world"
)

// TruthNode materialises the ground truth of an existing node the way kube-scheduler will (eventually) see it:
// provider instance table for managed nodes, the Node object otherwise; startup / known-ephemeral taints are dropped
// while a managed node is not initialised. kind ∈ unmanaged|launched|node-appeared|registered|initialized.
func TruthNode(e *world.Env, en *provscheduling.ExistingNode) (cn oracle.ConcreteNode, kind string, ok bool) {
	cn = oracle.ConcreteNode{Name: en.Name()}
	kind = "unmanaged"
	var startup []corev1.Taint
	initialized := true
	if en.NodeClaim != nil {
		initialized = false
		kind = "launched"
		startup = en.NodeClaim.Spec.StartupTaints
		inst := e.Provider.Instance(en.NodeClaim.Status.ProviderID)
		if inst == nil {
			return cn, kind, false
		}
		cn.Allocatable = inst.Allocatable
		cn.Labels = map[string]string{}
		for k, v := range inst.Labels {
			cn.Labels[k] = v
		}
		for k, v := range en.NodeClaim.Labels {
			cn.Labels[k] = v
		}
		cn.Taints = en.NodeClaim.Spec.Taints
	}
	if en.Node != nil {
		node := &corev1.Node{}
		if e.API.Raw.Get(context.Background(), types.NamespacedName{Name: en.Node.Name}, node) == nil {
			if en.NodeClaim == nil {
				cn.Allocatable, cn.Labels, cn.Taints = node.Status.Allocatable, node.Labels, node.Spec.Taints
			} else {
				kind = "node-appeared"
				if node.Labels[v1.NodeRegisteredLabelKey] == "true" {
					kind = "registered"
					for k, v := range node.Labels {
						cn.Labels[k] = v
					}
					cn.Taints = node.Spec.Taints
					if node.Labels[v1.NodeInitializedLabelKey] == "true" {
						kind = "initialized"
						initialized = true
						cn.Allocatable = node.Status.Allocatable
					}
				}
			}
		}
	}
	if !initialized {
		var keep []corev1.Taint
		for _, t := range cn.Taints {
			if scheduling.IsKnownEphemeralTaint(&t) {
				continue
			}
			isStartup := false
			for _, st := range startup {
				if st.MatchTaint(&t) {
					isStartup = true
				}
			}
			if !isStartup {
				keep = append(keep, t)
			}
		}
		cn.Taints = keep
	}
	return cn, kind, true
}

// BoundPods returns the non-terminal pods bound to a node, optionally excluding some UIDs.
func BoundPods(e *world.Env, nodeName string, exclude map[types.UID]bool) []*corev1.Pod {
	pods := &corev1.PodList{}
	_ = e.API.Raw.List(context.Background(), pods, client.MatchingFields{"spec.nodeName": nodeName})
	var out []*corev1.Pod
	for i := range pods.Items {
		p := &pods.Items[i]
		if p.Status.Phase == corev1.PodSucceeded || p.Status.Phase == corev1.PodFailed || exclude[p.UID] {
			continue
		}
		out = append(out, p)
	}
	return out
}

// JudgeExisting applies the admissibility oracle to the pods a scheduling result put on an existing node.
// originals maps UID → stored (unrelaxed) pod. Returns the refusal ("" = admissible) and the node kind.
func JudgeExisting(s *Scenario, en *provscheduling.ExistingNode, originals map[types.UID]*corev1.Pod) (why string, kind string, cn oracle.ConcreteNode, judged bool) {
	e := s.Env
	cn, kind, ok := TruthNode(e, en)
	if !ok {
		return "", kind, cn, false
	}
	var placed []*corev1.Pod
	placedUID := map[types.UID]bool{}
	for _, p := range en.Pods {
		o := originals[p.UID]
		if o == nil {
			o = p
		}
		placed = append(placed, o)
		placedUID[p.UID] = true
	}
	var others []*corev1.Pod
	boundDaemons := map[string]bool{}
	if en.Node != nil {
		for _, bp := range BoundPods(e, en.Node.Name, placedUID) {
			others = append(others, bp)
			for _, or := range bp.OwnerReferences {
				if or.Kind == "DaemonSet" {
					boundDaemons[string(or.UID)] = true
				}
			}
		}
	}
	var pendingDaemons []*corev1.Pod
	for i, d := range s.DaemonPodTemplates() {
		if !boundDaemons[string(s.Daemons[i].UID)] && oracle.DaemonAdmissible(d, cn) {
			pendingDaemons = append(pendingDaemons, d)
		}
	}
	ar := oracle.AdmitAllEx(cn, placed, others, pendingDaemons)
	return ar.Why, kind, cn, true
}

// NoOffering is the refusal returned by OptionFeasible when the type cannot be launched at all under the requirements.
const NoOffering = "no available offering is admitted by the NodeClaim requirements"

func probeValues(req *scheduling.Requirement) (vals []string, absentOK bool) {
	switch req.Operator() {
	case corev1.NodeSelectorOpIn:
		v := append([]string(nil), req.Values()...)
		sort.Strings(v)
		return v, false
	case corev1.NodeSelectorOpDoesNotExist:
		return nil, true
	default:
		for _, c := range []string{"fresh-value", "0", "1", "2", "3", "4", "5", "6", "7", "16", "100"} {
			if req.Has(c) {
				vals = append(vals, c)
			}
		}
		return vals, false
	}
}

// OptionFeasible: exists an available offering of `it` admitted by the claim's final requirements such that on every
// concrete node that launch can produce, all placed pods (original specs) are admissible together with the
// daemons admissible on that node. partial reports capped enumerations.
func OptionFeasible(nc *provscheduling.NodeClaim, it *cloudprovider.InstanceType, placed, daemons []*corev1.Pod) (ok bool, why string, nodes int, partial bool) {
	lastWhy := NoOffering
	for _, g := range it.AllocatableOfferingsList() {
		for _, of := range g.Offerings {
			if !of.Available {
				continue
			}
			fixed := TypeLabels(it, of)
			admitted := true
			for k, v := range fixed {
				if req, has := nc.Requirements[k]; has && !req.Has(v) {
					admitted = false
					break
				}
			}
			if !admitted {
				continue
			}
			type free struct {
				key    string
				vals   []string
				absent bool
			}
			var frees []free
			total := 1
			for _, k := range SortedKeys(nc.Requirements) {
				if _, isFixed := fixed[k]; isFixed || k == corev1.LabelHostname || k == v1.NodeRegisteredLabelKey || k == v1.NodeInitializedLabelKey {
					continue
				}
				if _, def := it.Requirements[k]; def {
					continue
				}
				vals, absent := probeValues(nc.Requirements[k])
				n := len(vals)
				if absent {
					n++
				}
				if n == 0 {
					continue
				}
				frees = append(frees, free{k, vals, absent})
				total *= n
			}
			if total > 256 {
				partial = true
				total = 256
			}
			okAll := true
			w := ""
			for combo := 0; combo < total && okAll; combo++ {
				lbls := map[string]string{}
				for k, v := range nc.Labels {
					lbls[k] = v
				}
				for k, v := range fixed {
					lbls[k] = v
				}
				x := combo
				for _, f := range frees {
					n := len(f.vals)
					if f.absent {
						n++
					}
					i := x % n
					x /= n
					if i < len(f.vals) {
						lbls[f.key] = f.vals[i]
					} else {
						delete(lbls, f.key)
					}
				}
				lbls[v1.NodeRegisteredLabelKey] = "true"
				lbls[v1.NodeInitializedLabelKey] = "true"
				cn := oracle.ConcreteNode{Name: "new-node", Labels: lbls, Taints: nc.Spec.Taints, Allocatable: g.Allocatable}
				var others []*corev1.Pod
				for _, d := range daemons {
					if oracle.DaemonAdmissible(d, cn) {
						others = append(others, d)
					}
				}
				nodes++
				if ar := oracle.AdmitAll(cn, placed, others); !ar.OK {
					okAll = false
					w = fmt.Sprintf("offering %s/%s labels=%v: %s", of.Zone(), of.CapacityType(), lbls, ar.Why)
				}
			}
			if okAll {
				return true, "", nodes, partial
			}
			lastWhy = w
		}
	}
	return false, lastWhy, nodes, partial
}

// SnapshotPods returns the stored pods by UID.
func SnapshotPods(e *world.Env) map[types.UID]*corev1.Pod {
	pods := &corev1.PodList{}
	_ = e.API.Raw.List(context.Background(), pods)
	out := map[types.UID]*corev1.Pod{}
	for i := range pods.Items {
		out[pods.Items[i].UID] = &pods.Items[i]
	}
	return out
}

// PodNames helper.
func PodNames(ps []*corev1.Pod) []string {
	var out []string
	for _, p := range ps {
		out = append(out, p.Name)
	}
	return out
}
