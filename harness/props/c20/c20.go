// Package c20: NodePool registration health reflects the recent launch window.
//
// Monitors (all drive the real nodepoolhealth.State):
//   - seq:   every operation sequence up to a tier-determined length (exhaustive) and long random
//     sequences; after each op Status() must equal the 4-slot reference window, and before each
//     record DryRun(outcome).Status() must equal the status reached after recording.
//   - conc:  goroutines hammer one State; the call/return history is checked with porcupine
//     against the same sequential window model (race detector attached in the -race build).
//   - e2e:   (in e2e.go) the real registration / liveness / registrationhealth code paths write the
//     NodePool condition; it is compared with the reference after every recorded outcome.
package c20

import (
	"fmt"
	"math/rand"
	"strings"
	"sync"
	"sync/atomic"
	"time"

	"github.com/anishathalye/porcupine"
	"k8s.io/apimachinery/pkg/types"

	"sigs.k8s.io/karpenter/pkg/state/nodepoolhealth"

	"verif/mon"
	"verif/props/reg"
)

const (
	opSuccess = iota
	opFailure
	opResetUnknown
	opSetHealthy
	opSetUnhealthy
	nOps
)

var opNames = []string{"S", "F", "U", "H", "X"}

// ---- reference model: the last <=4 outcomes, threshold = half the window (2 of 4) ----

type window []bool

func (w window) record(b bool) window {
	n := append(append(window{}, w...), b)
	if len(n) > 4 {
		n = n[len(n)-4:]
	}
	return n
}

func (w window) status() nodepoolhealth.Status {
	if len(w) == 0 {
		return nodepoolhealth.StatusUnknown
	}
	f := 0
	for _, b := range w {
		if !b {
			f++
		}
	}
	if 2*f >= 4 { // failures fill at least half of the 4-slot window
		return nodepoolhealth.StatusUnhealthy
	}
	return nodepoolhealth.StatusHealthy
}

func (w window) apply(op int) window {
	switch op {
	case opSuccess:
		return w.record(true)
	case opFailure:
		return w.record(false)
	case opResetUnknown:
		return window{}
	case opSetHealthy:
		return window{true}
	case opSetUnhealthy:
		return window{false, false}
	}
	return w
}

func (w window) String() string {
	var sb strings.Builder
	for _, b := range w {
		if b {
			sb.WriteByte('T')
		} else {
			sb.WriteByte('F')
		}
	}
	return sb.String()
}

func seqString(ops []int) string {
	var sb strings.Builder
	for _, o := range ops {
		sb.WriteString(opNames[o])
	}
	return sb.String()
}

// runSeq drives the real State with ops and reports the first disagreement.
func runSeq(r *mon.Report, ops []int) {
	st := nodepoolhealth.NewState()
	uid := types.UID("np")
	var w window
	for i, op := range ops {
		switch op {
		case opSuccess, opFailure:
			outcome := op == opSuccess
			dry := st.DryRun(uid, outcome).Status()
			r.Inc("dryrun_checks")
			st.Update(uid, outcome)
			w = w.apply(op)
			got := st.Status(uid)
			r.Inc("status_checks")
			if got != w.status() {
				r.Violate("status-vs-window", fmt.Sprintf("Status()=%d but the last-4 window %q implies %d", got, w.String(), w.status()),
					map[string]any{"ops": seqString(ops[:i+1])}, map[string]any{"got": got, "want": w.status(), "window": w.String()})
				return
			}
			if dry != got {
				key := "dryrun-disagrees"
				if len(w) == 4 {
					key = "dryrun-after-wrap"
				}
				r.Violate(key, fmt.Sprintf("DryRun(%v).Status()=%d but after recording Status()=%d", outcome, dry, got),
					map[string]any{"ops": seqString(ops[:i+1])}, map[string]any{"dryrun": dry, "after_record": got, "window_after": w.String()})
				return
			}
		case opResetUnknown:
			st.SetStatus(uid, nodepoolhealth.StatusUnknown)
			w = w.apply(op)
		case opSetHealthy:
			st.SetStatus(uid, nodepoolhealth.StatusHealthy)
			w = w.apply(op)
		case opSetUnhealthy:
			st.SetStatus(uid, nodepoolhealth.StatusUnhealthy)
			w = w.apply(op)
		}
		if got := st.Status(uid); got != w.status() {
			r.Violate("status-vs-window", fmt.Sprintf("Status()=%d but window %q implies %d", got, w.String(), w.status()),
				map[string]any{"ops": seqString(ops[:i+1])}, map[string]any{"got": got, "want": w.status()})
			return
		}
		r.DistinctAdd("windows", w.String())
	}
}

// ---- case list ----
// case 0: exhaustive sequences up to length L; cases 1..R: random long sequences (chunks);
// cases R+1..R+C: concurrent histories (porcupine); remaining: e2e.

func sizes(tier string) (exLen, rndCases, rndPerCase, concCases, e2eCases int) {
	if tier == "thorough" {
		return 10, 32, 4000, 200, 400
	}
	return 8, 16, 1000, 40, 60
}

func cases(tier string) int {
	_, rc, _, cc, ec := sizes(tier)
	return 16 + rc + cc + ec // 16 exhaustive shards
}

func run(r *mon.Report, tier string, idx int, rng *rand.Rand) {
	exLen, rc, per, cc, _ := sizes(tier)
	switch {
	case idx < 16:
		// exhaustive shard: sequences whose index ≡ idx (mod 16), all lengths 1..exLen
		n := 0
		for l := 1; l <= exLen; l++ {
			total := 1
			for i := 0; i < l; i++ {
				total *= nOps
			}
			ops := make([]int, l)
			for s := idx; s < total; s += 16 {
				x := s
				for i := 0; i < l; i++ {
					ops[i] = x % nOps
					x /= nOps
				}
				runSeq(r, ops)
				n++
			}
		}
		r.Count("exhaustive_sequences", n)
		r.Count("evaluations_inner", n)
		r.Eval()
		r.Sig("exhaustive-shard-%d", idx)
		r.Extra["exhaustive_max_len"] = exLen
		if idx == 0 {
			r.Sample(map[string]any{"kind": "exhaustive", "alphabet": "S=success F=failure U=reset-unknown H=rehydrate-healthy X=rehydrate-unhealthy", "max_len": exLen, "example": "SSFSFS"})
		}
	case idx < 16+rc:
		for k := 0; k < per; k++ {
			l := 11 + rng.Intn(54)
			ops := make([]int, l)
			for i := range ops {
				// bias toward records so that the ring wraps often
				if rng.Intn(10) < 8 {
					ops[i] = rng.Intn(2)
				} else {
					ops[i] = rng.Intn(nOps)
				}
			}
			runSeq(r, ops)
			if k == 0 && r.WantSample() {
				r.Sample(map[string]any{"kind": "random", "ops": seqString(ops)})
			}
		}
		r.Count("random_sequences", per)
		r.Count("evaluations_inner", per)
		r.Eval()
		r.Sig("random-chunk-%d", idx)
	case idx < 16+rc+cc:
		runConcurrent(r, rng)
	default:
		runE2E(r, tier, idx, rng)
	}
}

// ---- concurrent history + porcupine ----

type cin struct {
	Op  int // 0 update, 1 status, 2 dryrun, 3 setstatus
	Arg int
}

var model = porcupine.Model{
	Init: func() any { return "" },
	Step: func(state, input, output any) (bool, any) {
		w := fromString(state.(string))
		in := input.(cin)
		switch in.Op {
		case 0:
			return true, w.record(in.Arg == 1).String()
		case 1:
			return output.(int) == int(w.status()), state
		case 2:
			return output.(int) == int(w.record(in.Arg == 1).status()), state
		case 3:
			switch nodepoolhealth.Status(in.Arg) {
			case nodepoolhealth.StatusUnknown:
				return true, ""
			case nodepoolhealth.StatusHealthy:
				return true, "T"
			default:
				return true, "FF"
			}
		}
		return false, state
	},
	Equal: func(a, b any) bool { return a.(string) == b.(string) },
	DescribeOperation: func(in, out any) string {
		return fmt.Sprintf("%v -> %v", in, out)
	},
}

func fromString(s string) window {
	w := window{}
	for _, c := range s {
		w = append(w, c == 'T')
	}
	return w
}

// runFirstTouchStorm: 2-4 goroutines released from a barrier record one failure each for a NodePool UID nobody touched
// before (new pool, or first touches after a restart). Recording a failure commutes with recording a failure, so the
// outcome does not depend on the interleaving: n >= 2 failures in an empty window make the pool Unhealthy, and the
// what-if for one more success must agree with recording it.
func runFirstTouchStorm(r *mon.Report, rng *rand.Rand, rounds int) {
	st := nodepoolhealth.NewState()
	for k := 0; k < rounds; k++ {
		uid := types.UID(fmt.Sprintf("np-%d", k))
		n := 2 + rng.Intn(3)
		start := make(chan struct{})
		var wg sync.WaitGroup
		for g := 0; g < n; g++ {
			wg.Add(1)
			go func() {
				defer wg.Done()
				<-start
				st.Update(uid, false)
			}()
		}
		close(start)
		wg.Wait()
		r.Inc("first_touch_storm_rounds")
		if got := st.Status(uid); got != nodepoolhealth.StatusUnhealthy {
			r.Violate("concurrent-first-touch-loses-an-outcome", fmt.Sprintf("%d launch failures were recorded concurrently for a NodePool nobody had touched; the status is %d, not Unhealthy (%d): a recorded outcome was lost", n, got, nodepoolhealth.StatusUnhealthy),
				map[string]any{"goroutines": n, "round": k}, nil)
			return
		}
	}
}

func runConcurrent(r *mon.Report, rng *rand.Rand) {
	runFirstTouchStorm(r, rng, 3000)
	st := nodepoolhealth.NewState()
	uid := types.UID("np")
	nG := 3 + rng.Intn(4)
	perG := 4 + rng.Intn(5)
	var clock int64
	var mu sync.Mutex
	var ops []porcupine.Operation
	var wg sync.WaitGroup
	seeds := make([]int64, nG)
	for i := range seeds {
		seeds[i] = rng.Int63()
	}
	// pre-fill so that the ring is wrapped in most histories
	pre := rng.Intn(7)
	preOps := []porcupine.Operation{}
	for i := 0; i < pre; i++ {
		b := rng.Intn(2)
		c := atomic.AddInt64(&clock, 1)
		st.Update(uid, b == 1)
		ret := atomic.AddInt64(&clock, 1)
		preOps = append(preOps, porcupine.Operation{ClientId: 0, Input: cin{0, b}, Call: c, Output: 0, Return: ret})
	}
	ops = append(ops, preOps...)
	for g := 0; g < nG; g++ {
		wg.Add(1)
		go func(g int) {
			defer wg.Done()
			lr := rand.New(rand.NewSource(seeds[g]))
			for k := 0; k < perG; k++ {
				in := cin{Op: lr.Intn(3)}
				if lr.Intn(12) == 0 {
					in.Op = 3
					in.Arg = lr.Intn(3)
				} else {
					in.Arg = lr.Intn(2)
				}
				call := atomic.AddInt64(&clock, 1)
				out := 0
				switch in.Op {
				case 0:
					st.Update(uid, in.Arg == 1)
				case 1:
					out = int(st.Status(uid))
				case 2:
					out = int(st.DryRun(uid, in.Arg == 1).Status())
				case 3:
					st.SetStatus(uid, nodepoolhealth.Status(in.Arg))
				}
				ret := atomic.AddInt64(&clock, 1)
				mu.Lock()
				ops = append(ops, porcupine.Operation{ClientId: g + 1, Input: in, Call: call, Output: out, Return: ret})
				mu.Unlock()
			}
		}(g)
	}
	wg.Wait()
	r.Eval()
	r.Count("concurrent_ops", len(ops))
	res, _ := porcupine.CheckOperationsVerbose(model, ops, 30*time.Second)
	switch res {
	case porcupine.Ok:
		r.Inc("porcupine_ok")
		r.Sig("conc-g%d-pre%d", nG, pre)
	case porcupine.Unknown:
		r.Inconcl("porcupine timeout on %d ops", len(ops))
	case porcupine.Illegal:
		hist := []string{}
		for _, o := range ops {
			hist = append(hist, fmt.Sprintf("c%d [%d,%d] %v -> %v", o.ClientId, o.Call, o.Return, o.Input, o.Output))
		}
		key := "concurrent-history-not-linearizable"
		r.Violate(key, "history of Update/Status/DryRun/SetStatus on one pool is not linearizable w.r.t. the 4-slot window model",
			map[string]any{"goroutines": nG, "prefill": pre}, hist)
	}
}

func init() {
	reg.Register(&reg.Prop{
		ID: "C20", Level: "exploration", Race: true,
		Rule:  "case kinds: (1) 16 shards that together enumerate EVERY sequence over {success,failure,reset-unknown,rehydrate-healthy,rehydrate-unhealthy} up to the tier's max length against the real nodepoolhealth.State; (2) chunks of random sequences of length 11..64; (3) concurrent Update/Status/DryRun/SetStatus histories checked with porcupine; (4) end-to-end runs of the real registration/liveness/registrationhealth controllers. A case is non-trivial when its monitor compared at least one real Status/DryRun/condition against the reference window; distinct by shard / chunk / (goroutines,prefill) / e2e outcome-sequence signature.",
		Cases: cases, Run: run,
	})
}
