package c20

import (
	"math/rand"

	"verif/mon"
)

func runE2E(r *mon.Report, tier string, idx int, rng *rand.Rand) {
	r.Eval()
}
