package c20

import (
	"context"
	"fmt"
	"math/rand"
	"time"

	corev1 "k8s.io/api/core/v1"
	metav1 "k8s.io/apimachinery/pkg/apis/meta/v1"
	"k8s.io/apimachinery/pkg/types"

	v1 "sigs.k8s.io/karpenter/pkg/apis/v1"
	"sigs.k8s.io/karpenter/pkg/controllers/nodepool/registrationhealth"
	"sigs.k8s.io/karpenter/pkg/state/nodepoolhealth"
	tv1alpha1 "sigs.k8s.io/karpenter/pkg/test/v1alpha1"

	"verif/gen"
	"verif/mon"
	"verif/world"
)

// runE2E: the NodeRegistrationHealthy condition written by the real registration / liveness / registrationhealth
// code paths is compared with the reference window after every recorded launch outcome, reset and restart.
func runE2E(r *mon.Report, tier string, idx int, rng *rand.Rand) {
	r.Eval()
	e := world.NewEnv(rng)
	its, _ := gen.Catalog(rng, gen.CatalogCfg{MinTypes: 3, MaxTypes: 4, PUnavailable: 0}, "")
	e.Provider.Default = its
	e.Provider.Policy = "cheapest"
	e.Apply(gen.NodeClass())
	np := gen.NodePool(rng, "pool", gen.PoolCfg{})
	e.Apply(np)
	health := func() *registrationhealth.Controller {
		return registrationhealth.NewController(e.Clock, e.API.Client, e.Provider, e.NPHealth)
	}
	reconcileHealth := func() {
		cur := &v1.NodePool{}
		if e.API.Raw.Get(context.Background(), types.NamespacedName{Name: "pool"}, cur) == nil {
			_, _ = health().Reconcile(e.Ctx, cur)
		}
	}
	reconcileHealth() // first reconcile: condition Unknown, window empty
	cond := func() string {
		cur := &v1.NodePool{}
		_ = e.API.Raw.Get(context.Background(), types.NamespacedName{Name: "pool"}, cur)
		c := cur.StatusConditions().Get(v1.ConditionTypeNodeRegistrationHealthy)
		if c == nil {
			return "nil"
		}
		return string(c.Status)
	}
	var w window
	expect := cond()
	ops := ""
	n := 6 + rng.Intn(14)
	seq := 0
	cleanup := func() {
		ncs := &v1.NodeClaimList{}
		_ = e.API.Raw.List(context.Background(), ncs)
		for i := range ncs.Items {
			nc := &ncs.Items[i]
			e.Provider.Vanish(nc.Status.ProviderID)
			nc.Finalizers = nil
			_ = e.API.Raw.Update(context.Background(), nc)
			_ = e.API.Raw.Delete(context.Background(), nc)
		}
		nodes := &corev1.NodeList{}
		_ = e.API.Raw.List(context.Background(), nodes)
		for i := range nodes.Items {
			nd := &nodes.Items[i]
			nd.Finalizers = nil
			_ = e.API.Raw.Update(context.Background(), nd)
			_ = e.API.Raw.Delete(context.Background(), nd)
		}
		pods := &corev1.PodList{}
		_ = e.API.Raw.List(context.Background(), pods)
		for i := range pods.Items {
			_ = e.API.Raw.Delete(context.Background(), &pods.Items[i])
		}
		_ = e.SyncState()
	}
	newClaim := func() string {
		seq++
		e.Apply(gen.Pod(fmt.Sprintf("p%d", seq), 100, 64))
		_ = e.SyncState()
		res, err := e.Prov.Schedule(e.Ctx)
		if err != nil || len(res.NewNodeClaims) == 0 {
			return ""
		}
		name, err := e.Prov.Create(e.Ctx, res.NewNodeClaims[0])
		if err != nil {
			return ""
		}
		return name
	}
	for i := 0; i < n; i++ {
		op := []int{opSuccess, opSuccess, opFailure, opFailure, opFailure, opResetUnknown, 5, 6}[rng.Intn(8)]
		switch op {
		case opSuccess, opFailure:
			name := newClaim()
			if name == "" {
				r.Inconcl("e2e: could not create a NodeClaim")
				return
			}
			if op == opSuccess {
				if _, _, err := e.DriveClaim(name, world.StageRegistered); err != nil {
					r.Inconcl("e2e: registration did not complete: %v", err)
					return
				}
				ops += "S"
			} else {
				if _, _, err := e.DriveClaim(name, world.StageLaunched); err != nil {
					r.Inconcl("e2e: launch did not complete: %v", err)
					return
				}
				e.Clock.Step(16 * time.Minute) // registration timeout is 15 min
				_, _ = e.ReconcileClaim(name)
				ops += "F"
			}
			w = w.apply(op)
			r.Inc("e2e_outcomes_recorded")
			// the statement: recording a failure sets False exactly when failures then fill >= half the window, recording a
			// success sets True exactly when they fill less than half; otherwise the condition is left as it was
			st := w.status()
			if op == opFailure && st == nodepoolhealth.StatusUnhealthy {
				expect = "False"
			}
			if op == opSuccess && st == nodepoolhealth.StatusHealthy {
				expect = "True"
			}
			// the in-memory tracker must agree with the reference
			cur := &v1.NodePool{}
			_ = e.API.Raw.Get(context.Background(), types.NamespacedName{Name: "pool"}, cur)
			if got := e.NPHealth.Status(cur.UID); got != st {
				r.Violate("e2e-tracker-vs-window", fmt.Sprintf("after %s the tracker reports %d but the last-4 window %q implies %d", ops, got, w.String(), st), map[string]any{"ops": ops}, nil)
				return
			}
			cleanup()
		case opResetUnknown:
			// a NodePool spec change: the registrationhealth controller resets the window and sets Unknown
			cur := &v1.NodePool{}
			_ = e.API.Raw.Get(context.Background(), types.NamespacedName{Name: "pool"}, cur)
			if cur.Spec.Template.Labels == nil {
				cur.Spec.Template.Labels = map[string]string{}
			}
			cur.Spec.Template.Labels["rev"] = fmt.Sprint(i)
			e.Apply(cur)
			reconcileHealth()
			w = window{}
			expect = "Unknown"
			ops += "U"
			r.Inc("e2e_resets")
		case 6:
			// a NodeClass-only change (its generation moves, the NodePool's does not): the window is reset as well, also when
			// the condition is already Unknown and therefore does not move
			nc := &tv1alpha1.TestNodeClass{}
			if e.API.Raw.Get(context.Background(), types.NamespacedName{Name: "default"}, nc) == nil {
				if nc.Spec.Tags == nil {
					nc.Spec.Tags = map[string]string{}
				}
				nc.Spec.Tags["rev"] = fmt.Sprint(i)
				e.Apply(nc)
			}
			reconcileHealth()
			w = window{}
			expect = "Unknown"
			ops += "N"
			r.Inc("e2e_nodeclass_resets")
		default:
			// controller restart: the tracker is rebuilt empty and re-hydrated from the stored condition
			e.Restart()
			_ = e.SyncState()
			reconcileHealth()
			switch expect {
			case "True":
				w = window{true}
			case "False":
				w = window{false, false}
			default:
				w = window{}
			}
			ops += "R"
			r.Inc("e2e_restarts")
		}
		r.Inc("e2e_condition_checks")
		if got := cond(); got != expect {
			key := "e2e-condition-vs-window"
			r.Violate(key, fmt.Sprintf("after %s the NodePool condition NodeRegistrationHealthy=%s but the reference window %q implies %s", ops, got, w.String(), expect), map[string]any{"ops": ops}, map[string]any{"got": got, "want": expect})
			return
		}
	}
	r.Sig("e2e-len%d-%s", len(ops)/4, ops[:min(len(ops), 6)])
	if r.WantSample() {
		r.Sample(map[string]any{"kind": "e2e", "ops": ops, "alphabet": "S=claim registered F=registration timeout U=NodePool spec change N=NodeClass-only change R=controller restart", "final_condition": expect})
	}
}

var _ = metav1.Now
