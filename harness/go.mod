module verif

go 1.26.6

require sigs.k8s.io/karpenter v0.0.0

replace sigs.k8s.io/karpenter => /repo

require (
	github.com/anishathalye/porcupine v1.3.0
	k8s.io/apimachinery v0.36.1
)
