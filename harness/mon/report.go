// Package mon holds what every monitor shares: the per-run report (what was observed, which
// antecedents fired, which violations were witnessed), three-valued verdicts and the on-disk
// formats exchanged between child processes (vharness) and the parent (check).
package mon

import (
	"encoding/json"
	"fmt"
	"os"
	"runtime/debug"
	"sort"
	"sync"
)

// Violation is one witnessed refutation of a property. Key identifies the *class* of failing
// input / call site / history shape; the parent matches it against KNOWN_FINDINGS.json.
type Violation struct {
	Property string `json:"property"`
	Key      string `json:"key"`
	What     string `json:"what"`
	Case     any    `json:"case,omitempty"`    // complete generator parameters / inputs
	Witness  any    `json:"witness,omitempty"` // what the monitor saw
	CaseIdx  int    `json:"case_idx"`
	Seed     int64  `json:"seed"`
}

// Report is written by a child for its batch and merged by the parent.
type Report struct {
	mu sync.Mutex

	Property     string         `json:"property"`
	Tier         string         `json:"tier"`
	Seed         int64          `json:"seed"`
	Batch        int            `json:"batch"`
	Level        string         `json:"level"`
	Rule         string         `json:"rule"`
	Evaluations  int            `json:"evaluations"`
	Signatures   map[string]int `json:"signatures"`  // non-trivial case signatures → count
	Counters     map[string]int `json:"counters"`    // events / oracle checks / antecedents by name
	Distinct     map[string]map[string]bool `json:"-"` // named distinct-sets (schedules, states…)
	DistinctOut  map[string][]string `json:"distinct,omitempty"`
	Samples      []any          `json:"samples"`
	Violations   []Violation    `json:"violations"`
	Inconclusive []string       `json:"inconclusive"`
	Assumptions  []string       `json:"assumptions"`
	Exhaustive   bool           `json:"exhaustive,omitempty"`
	Extra        map[string]any `json:"extra,omitempty"`

	curCase int
	maxSamples int
}

func NewReport(prop, tier string, seed int64, batch int) *Report {
	return &Report{Property: prop, Tier: tier, Seed: seed, Batch: batch,
		Signatures: map[string]int{}, Counters: map[string]int{}, Distinct: map[string]map[string]bool{},
		Extra: map[string]any{}, maxSamples: 3}
}

func (r *Report) SetCase(i int) { r.mu.Lock(); r.curCase = i; r.mu.Unlock() }
func (r *Report) CurCase() int  { r.mu.Lock(); defer r.mu.Unlock(); return r.curCase }

// Eval counts one executed case.
func (r *Report) Eval() { r.mu.Lock(); r.Evaluations++; r.mu.Unlock() }

// Sig records the signature of a case in which at least one monitor antecedent was true.
func (r *Report) Sig(format string, a ...any) {
	s := fmt.Sprintf(format, a...)
	r.mu.Lock()
	r.Signatures[s]++
	r.mu.Unlock()
}

func (r *Report) Count(name string, n int) {
	r.mu.Lock()
	r.Counters[name] += n
	r.mu.Unlock()
}

func (r *Report) Inc(name string) { r.Count(name, 1) }

// DistinctAdd adds v to the named set of distinct observations (e.g. schedules).
func (r *Report) DistinctAdd(set, v string) {
	r.mu.Lock()
	m := r.Distinct[set]
	if m == nil {
		m = map[string]bool{}
		r.Distinct[set] = m
	}
	m[v] = true
	r.mu.Unlock()
}

func (r *Report) Sample(s any) {
	r.mu.Lock()
	if len(r.Samples) < r.maxSamples {
		r.Samples = append(r.Samples, s)
	}
	r.mu.Unlock()
}

func (r *Report) WantSample() bool {
	r.mu.Lock()
	defer r.mu.Unlock()
	return len(r.Samples) < r.maxSamples
}

func (r *Report) Assume(s string) {
	r.mu.Lock()
	for _, a := range r.Assumptions {
		if a == s {
			r.mu.Unlock()
			return
		}
	}
	r.Assumptions = append(r.Assumptions, s)
	r.mu.Unlock()
}

func (r *Report) Inconcl(format string, a ...any) {
	r.mu.Lock()
	if len(r.Inconclusive) < 50 {
		r.Inconclusive = append(r.Inconclusive, fmt.Sprintf(format, a...))
	}
	r.Counters["inconclusive"]++
	r.mu.Unlock()
}

// Violate records a violation. At most 5 witnesses per key are kept (the count is kept in full).
func (r *Report) Violate(key, what string, cs, witness any) {
	r.mu.Lock()
	defer r.mu.Unlock()
	r.Counters["violation:"+key]++
	n := 0
	for _, v := range r.Violations {
		if v.Key == key {
			n++
		}
	}
	if n >= 3 {
		return
	}
	r.Violations = append(r.Violations, Violation{Property: r.Property, Key: key, What: what, Case: cs, Witness: witness, CaseIdx: r.curCase, Seed: r.Seed})
}

// Guard runs f and converts a recoverable panic into a value (the stack is returned).
func Guard(f func()) (panicked bool, val any, stack string) {
	defer func() {
		if x := recover(); x != nil {
			panicked, val, stack = true, x, string(debug.Stack())
		}
	}()
	f()
	return
}

func (r *Report) Write(path string) error {
	r.mu.Lock()
	defer r.mu.Unlock()
	r.DistinctOut = map[string][]string{}
	for k, m := range r.Distinct {
		l := make([]string, 0, len(m))
		for v := range m {
			l = append(l, v)
		}
		sort.Strings(l)
		if len(l) > 20000 { // keep files bounded; the count is in counters
			l = l[:20000]
		}
		r.Counters["distinct:"+k] = len(m)
		r.DistinctOut[k] = l
	}
	b, err := json.Marshal(r)
	if err != nil {
		return err
	}
	return os.WriteFile(path, b, 0o644)
}
