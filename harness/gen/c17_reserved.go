package gen

import (
	"fmt"
	"math/rand"

	corev1 "k8s.io/api/core/v1"

	v1 "sigs.k8s.io/karpenter/pkg/apis/v1"
	"sigs.k8s.io/karpenter/pkg/cloudprovider"
)

// C17ReservedCfg tunes the dense reserved-offering overlay used by property C17.
type C17ReservedCfg struct {
	IDs          int     // size of the shared reservation-id pool (r-0 .. r-(IDs-1))
	PType        float64 // probability that an instance type carries reserved offerings at all
	MaxZones     int     // reserved offerings of one type are spread over 1..MaxZones zones
	PSecondID    float64 // probability of a second reservation id in the same zone of the same type
	PCapSkew     float64 // probability an offering advertises a capacity different from the id's base capacity
	PUnavailable float64 // probability a reserved offering is unavailable
}

func DefaultC17ReservedCfg() C17ReservedCfg {
	return C17ReservedCfg{IDs: 3, PType: 0.65, MaxZones: 3, PSecondID: 0.25, PCapSkew: 0.12, PUnavailable: 0.1}
}

// C17Capacities draws the base capacity (0..3) of every reservation id of the shared pool. The same map must be
// handed to every catalog of a world so that ids are shared across instance types and NodePools.
func C17Capacities(rng *rand.Rand, cfg C17ReservedCfg) map[string]int {
	out := map[string]int{}
	for i := 0; i < cfg.IDs; i++ {
		// 0:15% 1:40% 2:30% 3:15%
		x := rng.Intn(100)
		c := 3
		switch {
		case x < 15:
			c = 0
		case x < 55:
			c = 1
		case x < 85:
			c = 2
		}
		out[fmt.Sprintf("r-%d", i)] = c
	}
	return out
}

// C17AddReserved overlays dense reserved offerings on generated type specs (existing reserved offerings are
// dropped first) and rebuilds the instance types: reservation ids are drawn from a pool shared by all types and all
// catalogs of the world, several reserved offerings per type in different zones, capacities 0..3 with occasional
// disagreeing advertisements for the same id (the scheduler must then honour the smallest one).
func C17AddReserved(rng *rand.Rand, specs []TypeSpec, caps map[string]int, cfg C17ReservedCfg) ([]*cloudprovider.InstanceType, []TypeSpec) {
	ids := make([]string, 0, len(caps))
	for i := 0; i < len(caps); i++ {
		ids = append(ids, fmt.Sprintf("r-%d", i))
	}
	var its []*cloudprovider.InstanceType
	out := make([]TypeSpec, 0, len(specs))
	for _, s := range specs {
		var keep []OfferingSpec
		base := 0.0
		for _, o := range s.Offerings {
			if o.CapType == v1.CapacityTypeReserved {
				continue
			}
			keep = append(keep, o)
			if o.CapType == v1.CapacityTypeOnDemand && o.Price > base {
				base = o.Price
			}
		}
		if base == 0 {
			base = float64(s.CPU)*0.04 + float64(s.MemGi)*0.005
		}
		s.Offerings = keep
		if len(ids) > 0 && rng.Float64() < cfg.PType {
			nz := 1 + rng.Intn(cfg.MaxZones)
			if nz > len(Zones) {
				nz = len(Zones)
			}
			for _, zi := range rng.Perm(len(Zones))[:nz] {
				n := 1
				if rng.Float64() < cfg.PSecondID {
					n = 2
				}
				used := map[string]bool{}
				for k := 0; k < n; k++ {
					id := ids[rng.Intn(len(ids))]
					if used[id] {
						continue
					}
					used[id] = true
					c := caps[id]
					if rng.Float64() < cfg.PCapSkew {
						c = rng.Intn(4)
					}
					avail := rng.Float64() >= cfg.PUnavailable
					if c == 0 && rng.Intn(10) < 7 {
						avail = false // providers normally mark an exhausted reservation unavailable; sometimes they lag
					}
					s.Offerings = append(s.Offerings, OfferingSpec{Zone: Zones[zi], CapType: v1.CapacityTypeReserved, Price: round4(base * 0.01),
						Available: avail, ReservationID: id, ReservationCapacity: c})
				}
			}
		}
		out = append(out, s)
		its = append(its, BuildType(s))
	}
	return its, out
}

// C17PodCfg tunes the pod batches of property C17 (node-level constraints on zone / capacity type / family /
// reservation id only: the keys that make reserved offerings compatible or not).
type C17PodCfg struct {
	ReservationIDs []string // when non-empty pods may select on the reservation-id label
	IDLabel        string
}

// C17Pod generates one pending pod: big and small requests, zone / capacity-type (incl. reserved) /
// instance-family / reservation-id selectors, blanket tolerations and preferred terms.
func C17Pod(rng *rand.Rand, name string, cfg C17PodCfg) *corev1.Pod {
	cpu := []int64{100, 250, 500, 900, 1000, 1500, 1800, 2000, 3500, 3800, 7000}[rng.Intn(11)]
	mem := []int64{64, 128, 256, 512, 1024, 2048, 4096}[rng.Intn(7)]
	var opts []PodOpt
	var exprs []corev1.NodeSelectorRequirement
	if rng.Intn(100) < 35 {
		z := Zones[rng.Intn(len(Zones))]
		switch rng.Intn(4) {
		case 0:
			exprs = append(exprs, NSR(corev1.LabelTopologyZone, corev1.NodeSelectorOpNotIn, z))
		case 1:
			exprs = append(exprs, NSR(corev1.LabelTopologyZone, corev1.NodeSelectorOpIn, subset(rng, Zones)...))
		default:
			opts = append(opts, WithNodeSelector(corev1.LabelTopologyZone, z))
		}
	}
	if rng.Intn(100) < 30 {
		switch x := rng.Intn(100); {
		case x < 40:
			opts = append(opts, WithNodeSelector(v1.CapacityTypeLabelKey, v1.CapacityTypeReserved))
		case x < 55:
			opts = append(opts, WithNodeSelector(v1.CapacityTypeLabelKey, v1.CapacityTypeOnDemand))
		case x < 65:
			opts = append(opts, WithNodeSelector(v1.CapacityTypeLabelKey, v1.CapacityTypeSpot))
		case x < 80:
			exprs = append(exprs, NSR(v1.CapacityTypeLabelKey, corev1.NodeSelectorOpIn, v1.CapacityTypeReserved, v1.CapacityTypeOnDemand))
		case x < 90:
			exprs = append(exprs, NSR(v1.CapacityTypeLabelKey, corev1.NodeSelectorOpNotIn, v1.CapacityTypeSpot))
		default:
			exprs = append(exprs, NSR(v1.CapacityTypeLabelKey, corev1.NodeSelectorOpNotIn, v1.CapacityTypeReserved))
		}
	}
	if rng.Intn(100) < 20 {
		if rng.Intn(2) == 0 {
			opts = append(opts, WithNodeSelector(LabelFamily, Families[rng.Intn(len(Families))]))
		} else {
			exprs = append(exprs, NSR(LabelFamily, corev1.NodeSelectorOpNotIn, Families[rng.Intn(len(Families))]))
		}
	}
	if len(cfg.ReservationIDs) > 0 && rng.Intn(100) < 18 {
		id := cfg.ReservationIDs[rng.Intn(len(cfg.ReservationIDs))]
		switch rng.Intn(5) {
		case 0:
			opts = append(opts, WithNodeSelector(cfg.IDLabel, id))
		case 1:
			exprs = append(exprs, NSR(cfg.IDLabel, corev1.NodeSelectorOpNotIn, id))
		case 2:
			exprs = append(exprs, NSR(cfg.IDLabel, corev1.NodeSelectorOpIn, subset(rng, cfg.ReservationIDs)...))
		case 3:
			exprs = append(exprs, NSR(cfg.IDLabel, corev1.NodeSelectorOpExists))
		default:
			exprs = append(exprs, NSR(cfg.IDLabel, corev1.NodeSelectorOpDoesNotExist))
		}
	}
	if len(exprs) > 0 {
		opts = append(opts, WithRequiredTerms(exprs))
	}
	if rng.Intn(100) < 12 {
		switch rng.Intn(3) {
		case 0:
			opts = append(opts, WithPreferredTerm(int32(1+rng.Intn(100)), NSR(corev1.LabelTopologyZone, corev1.NodeSelectorOpIn, Zones[rng.Intn(len(Zones))])))
		case 1:
			opts = append(opts, WithPreferredTerm(int32(1+rng.Intn(100)), NSR(v1.CapacityTypeLabelKey, corev1.NodeSelectorOpIn, v1.CapacityTypeReserved)))
		default:
			opts = append(opts, WithPreferredTerm(int32(1+rng.Intn(100)), NSR(v1.CapacityTypeLabelKey, corev1.NodeSelectorOpIn, v1.CapacityTypeOnDemand)))
		}
	}
	if rng.Intn(100) < 35 {
		opts = append(opts, WithToleration(corev1.Toleration{Operator: corev1.TolerationOpExists}))
	}
	return Pod(name, cpu, mem, opts...)
}
