package gen

import (
	"fmt"
	"math/rand"

	corev1 "k8s.io/api/core/v1"

	v1 "sigs.k8s.io/karpenter/pkg/apis/v1"
)

// ExoticRequirements draws 0-3 requirements per key over ALL eight operators (several per key), on
// well-known enumerated keys, well-known integer keys and custom keys. The result is only a candidate:
// callers pass the NodePool through the real CRD + CEL + RuntimeValidate pipeline and drop rejected ones.
func ExoticRequirements(rng *rand.Rand, maxKeys int) []Req {
	type keyspec struct {
		key     string
		enum    []string
		numeric bool
	}
	keysAll := []keyspec{
		{corev1.LabelTopologyZone, Zones, false},
		{v1.CapacityTypeLabelKey, CapTypes, false},
		{LabelFamily, Families, false},
		{LabelGen, []string{"1", "2", "3", "4", "5", "6"}, true},
		{LabelSize, []string{"1", "2", "4", "8", "16"}, true},
		{LabelTeam, []string{"red", "blue", "green"}, false},
		{LabelTier, []string{"0", "1", "2", "3", "7"}, true},
	}
	reqs := []Req{}
	perm := rng.Perm(len(keysAll))
	nk := 1 + rng.Intn(maxKeys)
	for _, ki := range perm[:nk] {
		ks := keysAll[ki]
		n := 1 + rng.Intn(3)
		for i := 0; i < n; i++ {
			var op corev1.NodeSelectorOperator
			if ks.numeric {
				op = []corev1.NodeSelectorOperator{corev1.NodeSelectorOpIn, corev1.NodeSelectorOpNotIn, corev1.NodeSelectorOpExists,
					corev1.NodeSelectorOpGt, corev1.NodeSelectorOpLt, v1.NodeSelectorOpGte, v1.NodeSelectorOpLte, corev1.NodeSelectorOpGt, corev1.NodeSelectorOpLt}[rng.Intn(9)]
			} else {
				op = []corev1.NodeSelectorOperator{corev1.NodeSelectorOpIn, corev1.NodeSelectorOpIn, corev1.NodeSelectorOpNotIn, corev1.NodeSelectorOpExists}[rng.Intn(4)]
			}
			switch op {
			case corev1.NodeSelectorOpIn, corev1.NodeSelectorOpNotIn:
				reqs = append(reqs, R(ks.key, op, subset(rng, ks.enum)...))
			case corev1.NodeSelectorOpExists:
				reqs = append(reqs, R(ks.key, op))
			default:
				// bounds incl. 0 (Lt 0 / Lte 0 are accepted by the CRD), small and large values
				b := []int{0, 0, 1, 2, 3, 4, 5, 6, 8, 16, 100}[rng.Intn(11)]
				reqs = append(reqs, R(ks.key, op, fmt.Sprint(b)))
			}
		}
	}
	return reqs
}
