package gen

import (
	"fmt"
	"math/rand"
	"time"

	"github.com/awslabs/operatorpkg/status"
	appsv1 "k8s.io/api/apps/v1"
	corev1 "k8s.io/api/core/v1"
	metav1 "k8s.io/apimachinery/pkg/apis/meta/v1"
	"k8s.io/apimachinery/pkg/types"

	v1 "sigs.k8s.io/karpenter/pkg/apis/v1"
	"sigs.k8s.io/karpenter/pkg/test/v1alpha1"
)

// NodeClass returns the ready TestNodeClass all generated NodePools reference.
func NodeClass() *v1alpha1.TestNodeClass {
	nc := &v1alpha1.TestNodeClass{ObjectMeta: metav1.ObjectMeta{Name: "default"}}
	nc.StatusConditions().SetTrue(status.ConditionReady)
	return nc
}

func NodeClassRef() *v1.NodeClassReference {
	return &v1.NodeClassReference{Group: "karpenter.test.sh", Kind: "TestNodeClass", Name: "default"}
}

type Req = v1.NodeSelectorRequirementWithMinValues

func R(key string, op corev1.NodeSelectorOperator, vals ...string) Req {
	return Req{Key: key, Operator: op, Values: vals}
}

// PoolCfg tunes NodePool generation.
type PoolCfg struct {
	PTaint float64
	// PStartupTaint: probability of a startup taint; when the pool also has a permanent taint, half of the startup taints
	// share its KEY with a different effect (taints are identified by key + effect, validation accepts the pair)
	PStartupTaint float64
	PRequirement  float64
	PCustomLabel  float64
	PLimits       float64
	PMinValues    float64
	NumericOps    bool // allow Gt/Lt/Gte/Lte on integer-valued keys
}

func DefaultPoolCfg() PoolCfg {
	return PoolCfg{PTaint: 0.25, PRequirement: 0.6, PCustomLabel: 0.3, PLimits: 0, PMinValues: 0, NumericOps: true}
}

func subset(rng *rand.Rand, all []string) []string {
	var out []string
	for _, a := range all {
		if rng.Intn(2) == 0 {
			out = append(out, a)
		}
	}
	if len(out) == 0 {
		out = []string{all[rng.Intn(len(all))]}
	}
	return out
}

// NodePool generates a ready, dynamic NodePool.
func NodePool(rng *rand.Rand, name string, cfg PoolCfg) *v1.NodePool {
	np := &v1.NodePool{
		ObjectMeta: metav1.ObjectMeta{Name: name, UID: types.UID("np-" + name)},
		Spec: v1.NodePoolSpec{
			Template: v1.NodeClaimTemplate{
				Spec: v1.NodeClaimTemplateSpec{NodeClassRef: NodeClassRef(), ExpireAfter: v1.MustParseNillableDuration("Never")},
			},
			Disruption: v1.Disruption{
				ConsolidationPolicy: v1.ConsolidationPolicyWhenEmptyOrUnderutilized,
				ConsolidateAfter:    v1.MustParseNillableDuration("0s"),
				Budgets:             []v1.Budget{{Nodes: "100%"}},
			},
		},
	}
	reqs := []Req{}
	if rng.Float64() < cfg.PRequirement {
		switch rng.Intn(3) {
		case 0:
			reqs = append(reqs, R(corev1.LabelTopologyZone, corev1.NodeSelectorOpIn, subset(rng, Zones)...))
		case 1:
			reqs = append(reqs, R(corev1.LabelTopologyZone, corev1.NodeSelectorOpNotIn, Zones[rng.Intn(len(Zones))]))
		}
	}
	if rng.Float64() < cfg.PRequirement {
		switch rng.Intn(3) {
		case 0:
			reqs = append(reqs, R(v1.CapacityTypeLabelKey, corev1.NodeSelectorOpIn, CapTypes[rng.Intn(2)]))
		case 1:
			reqs = append(reqs, R(v1.CapacityTypeLabelKey, corev1.NodeSelectorOpIn, CapTypes...))
		}
	}
	if rng.Float64() < cfg.PRequirement/2 {
		reqs = append(reqs, R(corev1.LabelArchStable, corev1.NodeSelectorOpIn, Archs[rng.Intn(2)]))
	}
	if rng.Float64() < cfg.PRequirement/2 {
		switch rng.Intn(3) {
		case 0:
			reqs = append(reqs, R(LabelFamily, corev1.NodeSelectorOpIn, subset(rng, Families)...))
		case 1:
			reqs = append(reqs, R(LabelFamily, corev1.NodeSelectorOpNotIn, Families[rng.Intn(len(Families))]))
		case 2:
			reqs = append(reqs, R(LabelFamily, corev1.NodeSelectorOpExists))
		}
	}
	if cfg.NumericOps && rng.Float64() < cfg.PRequirement/2 {
		switch rng.Intn(4) {
		case 0:
			reqs = append(reqs, R(LabelGen, corev1.NodeSelectorOpGt, fmt.Sprint(rng.Intn(5))))
		case 1:
			reqs = append(reqs, R(LabelGen, corev1.NodeSelectorOpLt, fmt.Sprint(2+rng.Intn(6))))
		case 2:
			reqs = append(reqs, R(LabelSize, v1.NodeSelectorOpGte, fmt.Sprint([]int{1, 2, 4}[rng.Intn(3)])))
		case 3:
			reqs = append(reqs, R(LabelSize, v1.NodeSelectorOpLte, fmt.Sprint([]int{2, 4, 8, 16}[rng.Intn(4)])))
		}
	}
	if rng.Float64() < cfg.PCustomLabel {
		if rng.Intn(2) == 0 {
			np.Spec.Template.Labels = map[string]string{LabelTeam: []string{"red", "blue"}[rng.Intn(2)]}
		} else {
			reqs = append(reqs, R(LabelTeam, corev1.NodeSelectorOpIn, subset(rng, []string{"red", "blue", "green"})...))
		}
	}
	if cfg.PMinValues > 0 && rng.Float64() < cfg.PMinValues {
		mv := 2 + rng.Intn(2)
		reqs = append(reqs, Req{Key: corev1.LabelInstanceTypeStable, Operator: corev1.NodeSelectorOpExists, MinValues: &mv})
	}
	np.Spec.Template.Spec.Requirements = reqs
	if rng.Float64() < cfg.PTaint {
		eff := []corev1.TaintEffect{corev1.TaintEffectNoSchedule, corev1.TaintEffectNoExecute, corev1.TaintEffectPreferNoSchedule}[rng.Intn(3)]
		np.Spec.Template.Spec.Taints = []corev1.Taint{{Key: "dedicated", Value: []string{"x", "y"}[rng.Intn(2)], Effect: eff}}
	}
	if cfg.PStartupTaint > 0 && rng.Float64() < cfg.PStartupTaint {
		st := corev1.Taint{Key: "example.com/booting", Effect: corev1.TaintEffectNoSchedule}
		if pt := np.Spec.Template.Spec.Taints; len(pt) > 0 && rng.Intn(2) == 0 {
			for _, eff := range []corev1.TaintEffect{corev1.TaintEffectNoExecute, corev1.TaintEffectNoSchedule} {
				if eff != pt[0].Effect {
					st = corev1.Taint{Key: pt[0].Key, Value: "booting", Effect: eff}
					break
				}
			}
		}
		np.Spec.Template.Spec.StartupTaints = []corev1.Taint{st}
	}
	MarkPoolReady(np)
	return np
}

// MarkPoolReady sets the status conditions the readiness / validation controllers would set.
func MarkPoolReady(np *v1.NodePool) {
	np.StatusConditions().SetTrue(v1.ConditionTypeValidationSucceeded)
	np.StatusConditions().SetTrue(v1.ConditionTypeNodeClassReady)
}

// ---- pods ----

type PodOpt func(*corev1.Pod)

var podSeq int

// Pod builds a pending, unschedulable pod (what kube-scheduler hands to Karpenter).
func Pod(name string, cpuMilli, memMi int64, opts ...PodOpt) *corev1.Pod {
	p := &corev1.Pod{
		ObjectMeta: metav1.ObjectMeta{Name: name, Namespace: "default", UID: types.UID("pod-" + name), Labels: map[string]string{}},
		Spec: corev1.PodSpec{
			Containers: []corev1.Container{{Name: "c", Image: "img",
				Resources: corev1.ResourceRequirements{Requests: corev1.ResourceList{}}}},
		},
		Status: corev1.PodStatus{Phase: corev1.PodPending,
			Conditions: []corev1.PodCondition{{Type: corev1.PodScheduled, Status: corev1.ConditionFalse, Reason: corev1.PodReasonUnschedulable}}},
	}
	if cpuMilli > 0 {
		p.Spec.Containers[0].Resources.Requests[corev1.ResourceCPU] = Q(fmt.Sprintf("%dm", cpuMilli))
	}
	if memMi > 0 {
		p.Spec.Containers[0].Resources.Requests[corev1.ResourceMemory] = Q(fmt.Sprintf("%dMi", memMi))
	}
	for _, o := range opts {
		o(p)
	}
	return p
}

func WithNodeSelector(k, v string) PodOpt {
	return func(p *corev1.Pod) {
		if p.Spec.NodeSelector == nil {
			p.Spec.NodeSelector = map[string]string{}
		}
		p.Spec.NodeSelector[k] = v
	}
}

func WithLabels(kv ...string) PodOpt {
	return func(p *corev1.Pod) {
		for i := 0; i+1 < len(kv); i += 2 {
			p.Labels[kv[i]] = kv[i+1]
		}
	}
}

func WithRequiredTerms(terms ...[]corev1.NodeSelectorRequirement) PodOpt {
	return func(p *corev1.Pod) {
		aff(p)
		if p.Spec.Affinity.NodeAffinity == nil {
			p.Spec.Affinity.NodeAffinity = &corev1.NodeAffinity{}
		}
		sel := &corev1.NodeSelector{}
		for _, t := range terms {
			sel.NodeSelectorTerms = append(sel.NodeSelectorTerms, corev1.NodeSelectorTerm{MatchExpressions: t})
		}
		p.Spec.Affinity.NodeAffinity.RequiredDuringSchedulingIgnoredDuringExecution = sel
	}
}

func WithPreferredTerm(weight int32, exprs ...corev1.NodeSelectorRequirement) PodOpt {
	return func(p *corev1.Pod) {
		aff(p)
		if p.Spec.Affinity.NodeAffinity == nil {
			p.Spec.Affinity.NodeAffinity = &corev1.NodeAffinity{}
		}
		p.Spec.Affinity.NodeAffinity.PreferredDuringSchedulingIgnoredDuringExecution = append(p.Spec.Affinity.NodeAffinity.PreferredDuringSchedulingIgnoredDuringExecution,
			corev1.PreferredSchedulingTerm{Weight: weight, Preference: corev1.NodeSelectorTerm{MatchExpressions: exprs}})
	}
}

func aff(p *corev1.Pod) {
	if p.Spec.Affinity == nil {
		p.Spec.Affinity = &corev1.Affinity{}
	}
}

func WithToleration(t corev1.Toleration) PodOpt {
	return func(p *corev1.Pod) { p.Spec.Tolerations = append(p.Spec.Tolerations, t) }
}

func WithHostPort(port int32, proto corev1.Protocol, ip string) PodOpt {
	return func(p *corev1.Pod) {
		p.Spec.Containers[0].Ports = append(p.Spec.Containers[0].Ports, corev1.ContainerPort{ContainerPort: port, HostPort: port, Protocol: proto, HostIP: ip})
	}
}

func WithResource(name corev1.ResourceName, q string) PodOpt {
	return func(p *corev1.Pod) { p.Spec.Containers[0].Resources.Requests[name] = Q(q) }
}

func WithOwner(kind, name string) PodOpt {
	return func(p *corev1.Pod) {
		api := "apps/v1"
		if kind == "Node" {
			api = "v1"
		}
		t := true
		p.OwnerReferences = append(p.OwnerReferences, metav1.OwnerReference{APIVersion: api, Kind: kind, Name: name, UID: types.UID(kind + "-" + name), Controller: &t, BlockOwnerDeletion: &t})
	}
}

func WithAnnotation(k, v string) PodOpt {
	return func(p *corev1.Pod) {
		if p.Annotations == nil {
			p.Annotations = map[string]string{}
		}
		p.Annotations[k] = v
	}
}

// Bound turns the pod into a running pod on the node.
func Bound(node string, start time.Time) PodOpt {
	return func(p *corev1.Pod) {
		p.Spec.NodeName = node
		p.Status.Phase = corev1.PodRunning
		st := metav1.NewTime(start)
		p.Status.StartTime = &st
		p.Status.Conditions = []corev1.PodCondition{
			{Type: corev1.PodScheduled, Status: corev1.ConditionTrue},
			{Type: corev1.PodReady, Status: corev1.ConditionTrue},
		}
	}
}

func NSR(key string, op corev1.NodeSelectorOperator, vals ...string) corev1.NodeSelectorRequirement {
	return corev1.NodeSelectorRequirement{Key: key, Operator: op, Values: vals}
}

// PodCfg tunes random pod generation (node-level constraints only; inter-pod constraints are added by C02's generator).
type PodCfg struct {
	PSelector, PAffinity, PPreferred, PToleration, PHostPort, PGPU float64
	MaxCPUMilli                                                    int64
}

func DefaultPodCfg() PodCfg {
	return PodCfg{PSelector: 0.3, PAffinity: 0.3, PPreferred: 0.2, PToleration: 0.3, PHostPort: 0.2, PGPU: 0.1, MaxCPUMilli: 3000}
}

func randomNodeExpr(rng *rand.Rand) corev1.NodeSelectorRequirement {
	switch rng.Intn(9) {
	case 0:
		return NSR(corev1.LabelTopologyZone, corev1.NodeSelectorOpIn, subset(rng, Zones)...)
	case 1:
		return NSR(corev1.LabelTopologyZone, corev1.NodeSelectorOpNotIn, Zones[rng.Intn(3)])
	case 2:
		return NSR(v1.CapacityTypeLabelKey, corev1.NodeSelectorOpIn, CapTypes[rng.Intn(2)])
	case 3:
		return NSR(LabelFamily, corev1.NodeSelectorOpIn, subset(rng, Families)...)
	case 4:
		return NSR(LabelGen, corev1.NodeSelectorOpGt, fmt.Sprint(rng.Intn(5)))
	case 5:
		return NSR(LabelGen, corev1.NodeSelectorOpLt, fmt.Sprint(2+rng.Intn(5)))
	case 6:
		return NSR(LabelSize, corev1.NodeSelectorOpGt, fmt.Sprint([]int{1, 2, 4}[rng.Intn(3)]))
	case 7:
		return NSR(corev1.LabelArchStable, corev1.NodeSelectorOpIn, Archs[rng.Intn(2)])
	default:
		return NSR(LabelTeam, corev1.NodeSelectorOpIn, []string{"red", "blue", "green"}[rng.Intn(3)])
	}
}

// RandomPod generates a pod with a random mix of node-level constraints.
func RandomPod(rng *rand.Rand, name string, cfg PodCfg) *corev1.Pod {
	cpu := []int64{50, 100, 250, 500, 900, 1000, 1500, 2000, 3500}[rng.Intn(9)]
	if cpu > cfg.MaxCPUMilli {
		cpu = cfg.MaxCPUMilli
	}
	mem := []int64{64, 128, 256, 512, 1024, 2048}[rng.Intn(6)]
	var opts []PodOpt
	if rng.Float64() < cfg.PSelector {
		switch rng.Intn(4) {
		case 0:
			opts = append(opts, WithNodeSelector(corev1.LabelTopologyZone, Zones[rng.Intn(3)]))
		case 1:
			opts = append(opts, WithNodeSelector(v1.CapacityTypeLabelKey, CapTypes[rng.Intn(2)]))
		case 2:
			opts = append(opts, WithNodeSelector(LabelFamily, Families[rng.Intn(3)]))
		case 3:
			opts = append(opts, WithNodeSelector(LabelTeam, []string{"red", "blue"}[rng.Intn(2)]))
		}
	}
	if rng.Float64() < cfg.PAffinity {
		nterms := 1 + rng.Intn(3)
		var terms [][]corev1.NodeSelectorRequirement
		for i := 0; i < nterms; i++ {
			t := []corev1.NodeSelectorRequirement{randomNodeExpr(rng)}
			if rng.Intn(3) == 0 {
				t = append(t, randomNodeExpr(rng))
			}
			terms = append(terms, t)
		}
		opts = append(opts, WithRequiredTerms(terms...))
	}
	if rng.Float64() < cfg.PPreferred {
		for i := 0; i <= rng.Intn(2); i++ {
			opts = append(opts, WithPreferredTerm(int32(1+rng.Intn(100)), randomNodeExpr(rng)))
		}
	}
	if rng.Float64() < cfg.PToleration {
		switch rng.Intn(3) {
		case 0:
			opts = append(opts, WithToleration(corev1.Toleration{Key: "dedicated", Operator: corev1.TolerationOpExists}))
		case 1:
			opts = append(opts, WithToleration(corev1.Toleration{Key: "dedicated", Operator: corev1.TolerationOpEqual, Value: []string{"x", "y"}[rng.Intn(2)], Effect: corev1.TaintEffectNoSchedule}))
		case 2:
			opts = append(opts, WithToleration(corev1.Toleration{Operator: corev1.TolerationOpExists}))
		}
	}
	if rng.Float64() < cfg.PHostPort {
		port := int32(8000 + rng.Intn(2))
		proto := []corev1.Protocol{corev1.ProtocolTCP, corev1.ProtocolUDP}[boolIdx(rng.Intn(4) == 0)]
		ip := []string{"", "0.0.0.0", "10.0.0.1", "10.0.0.2"}[rng.Intn(4)]
		opts = append(opts, WithHostPort(port, proto, ip))
	}
	if rng.Float64() < cfg.PGPU {
		opts = append(opts, WithResource(ResGPU, "1"))
	}
	return Pod(name, cpu, mem, opts...)
}

// DaemonSet builds a DaemonSet whose pods request the given resources.
func DaemonSet(name string, cpuMilli, memMi int64, opts ...PodOpt) *appsv1.DaemonSet {
	tmpl := Pod("tmpl", cpuMilli, memMi, opts...)
	lbl := map[string]string{"ds": name}
	return &appsv1.DaemonSet{
		ObjectMeta: metav1.ObjectMeta{Name: name, Namespace: "default", UID: types.UID("DaemonSet-" + name)},
		Spec: appsv1.DaemonSetSpec{
			Selector: &metav1.LabelSelector{MatchLabels: lbl},
			Template: corev1.PodTemplateSpec{ObjectMeta: metav1.ObjectMeta{Labels: lbl}, Spec: tmpl.Spec},
		},
	}
}
