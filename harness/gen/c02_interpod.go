package gen

// C02 generators: NodePools whose zone / capacity-type / custom-key requirements leave some topology domains
// unprovisionable, namespaces with labels, and "deployments" (pods sharing labels and an identical set of
// inter-pod constraints: required/preferred pod (anti-)affinity, DoNotSchedule / ScheduleAnyway spreads with
// maxSkew, minDomains, node inclusion policies, matchLabelKeys, namespaces + namespaceSelector).

import (
	"fmt"
	"math/rand"
	"sort"

	corev1 "k8s.io/api/core/v1"
	metav1 "k8s.io/apimachinery/pkg/apis/meta/v1"
	"k8s.io/apimachinery/pkg/types"

	v1 "sigs.k8s.io/karpenter/pkg/apis/v1"
)

const (
	// LabelCell is the custom (not well-known) node label used as a topology key by C02.
	LabelCell = "example.com/cell"
	// pod label keys
	LabelApp     = "app"
	LabelVersion = "version"
	// namespace label key
	LabelNSEnv = "env"
)

var (
	Cells         = []string{"cell-1", "cell-2", "cell-3"}
	C02Namespaces = []string{"default", "ns-b", "ns-c"}
)

// C02NamespaceObjects returns the Namespace objects (ns-c never holds generated pods; it only widens selectors).
func C02NamespaceObjects(rng *rand.Rand) []*corev1.Namespace {
	var out []*corev1.Namespace
	for i, n := range C02Namespaces {
		env := "prod"
		if i == 2 || (i == 1 && rng.Intn(2) == 0) {
			env = "dev"
		}
		out = append(out, &corev1.Namespace{ObjectMeta: metav1.ObjectMeta{Name: n, UID: types.UID("ns-" + n),
			Labels: map[string]string{LabelNSEnv: env, "kubernetes.io/metadata.name": n}}})
	}
	return out
}

// C02Pool generates a ready, dynamic NodePool for inter-pod scenarios.
func C02Pool(rng *rand.Rand, name string) *v1.NodePool {
	np := &v1.NodePool{
		ObjectMeta: metav1.ObjectMeta{Name: name, UID: types.UID("np-" + name)},
		Spec: v1.NodePoolSpec{
			Template: v1.NodeClaimTemplate{
				Spec: v1.NodeClaimTemplateSpec{NodeClassRef: NodeClassRef(), ExpireAfter: v1.MustParseNillableDuration("Never")},
			},
			Disruption: v1.Disruption{
				ConsolidationPolicy: v1.ConsolidationPolicyWhenEmptyOrUnderutilized,
				ConsolidateAfter:    v1.MustParseNillableDuration("0s"),
				Budgets:             []v1.Budget{{Nodes: "100%"}},
			},
		},
	}
	var reqs []Req
	switch x := rng.Intn(20); {
	case x < 7: // no zone requirement
	case x < 14:
		reqs = append(reqs, R(corev1.LabelTopologyZone, corev1.NodeSelectorOpIn, subset(rng, Zones)...))
	default:
		reqs = append(reqs, R(corev1.LabelTopologyZone, corev1.NodeSelectorOpNotIn, Zones[rng.Intn(len(Zones))]))
	}
	switch x := rng.Intn(20); {
	case x < 5: // nodes of this pool lack the custom key
	case x < 10:
		np.Spec.Template.Labels = map[string]string{LabelCell: Cells[rng.Intn(len(Cells))]}
	case x < 18:
		reqs = append(reqs, R(LabelCell, corev1.NodeSelectorOpIn, subset(rng, Cells)...))
	case x < 19:
		reqs = append(reqs, R(LabelCell, corev1.NodeSelectorOpNotIn, Cells[rng.Intn(len(Cells))]))
	default:
		reqs = append(reqs, R(LabelCell, corev1.NodeSelectorOpExists))
	}
	switch x := rng.Intn(20); {
	case x < 12:
	case x < 16:
		reqs = append(reqs, R(v1.CapacityTypeLabelKey, corev1.NodeSelectorOpIn, v1.CapacityTypeOnDemand))
	case x < 18:
		reqs = append(reqs, R(v1.CapacityTypeLabelKey, corev1.NodeSelectorOpIn, v1.CapacityTypeSpot))
	default:
		reqs = append(reqs, R(v1.CapacityTypeLabelKey, corev1.NodeSelectorOpIn, CapTypes...))
	}
	np.Spec.Template.Spec.Requirements = reqs
	if rng.Intn(4) == 0 {
		np.Spec.Template.Spec.Taints = []corev1.Taint{{Key: "dedicated", Value: "x", Effect: corev1.TaintEffectNoSchedule}}
	}
	if rng.Intn(3) == 0 {
		w := int32(1 + rng.Intn(4)*10)
		np.Spec.Weight = &w
	}
	MarkPoolReady(np)
	return np
}

// C02Deployment is a template for pods that share labels and constraints.
type C02Deployment struct {
	Name        string
	Namespace   string
	CPU, Mem    int64
	Selector    map[string]string
	Affinity    *corev1.Affinity
	Tolerations []corev1.Toleration
	Spread      []corev1.TopologySpreadConstraint
}

// C02Cfg tunes the constraint mix.
type C02Cfg struct {
	PSpread, PAffinity, PAntiAffinity, PPreferred, PNodeLevel float64
}

func DefaultC02Cfg() C02Cfg {
	return C02Cfg{PSpread: 0.6, PAffinity: 0.35, PAntiAffinity: 0.45, PPreferred: 0.25, PNodeLevel: 0.35}
}

func c02Key(rng *rand.Rand) string {
	switch x := rng.Intn(20); {
	case x < 9:
		return corev1.LabelTopologyZone
	case x < 14:
		return corev1.LabelHostname
	case x < 18:
		return LabelCell
	default:
		return v1.CapacityTypeLabelKey
	}
}

// c02Selector: label selector of a constraint of deployment i (self / other / both / all / self+version).
func c02Selector(rng *rand.Rand, i, n int) *metav1.LabelSelector {
	self := fmt.Sprintf("d%d", i)
	other := self
	if n > 1 {
		other = fmt.Sprintf("d%d", (i+1+rng.Intn(n-1))%n)
	}
	switch x := rng.Intn(20); {
	case x < 10:
		return &metav1.LabelSelector{MatchLabels: map[string]string{LabelApp: self}}
	case x < 14:
		return &metav1.LabelSelector{MatchLabels: map[string]string{LabelApp: other}}
	case x < 17:
		vals := []string{self, other}
		sort.Strings(vals)
		return &metav1.LabelSelector{MatchExpressions: []metav1.LabelSelectorRequirement{{Key: LabelApp, Operator: metav1.LabelSelectorOpIn, Values: vals}}}
	case x < 18:
		return &metav1.LabelSelector{}
	case x < 19:
		return &metav1.LabelSelector{MatchLabels: map[string]string{LabelApp: self, LabelVersion: "v1"}}
	default:
		return &metav1.LabelSelector{MatchExpressions: []metav1.LabelSelectorRequirement{{Key: LabelApp, Operator: metav1.LabelSelectorOpExists}}}
	}
}

func c02Term(rng *rand.Rand, i, n int, ns string) corev1.PodAffinityTerm {
	t := corev1.PodAffinityTerm{TopologyKey: c02Key(rng), LabelSelector: c02Selector(rng, i, n)}
	otherNS := "ns-b"
	if ns == "ns-b" {
		otherNS = "default"
	}
	switch x := rng.Intn(20); {
	case x < 12: // own namespace
	case x < 14:
		t.Namespaces = []string{otherNS}
	case x < 16:
		t.Namespaces = []string{ns, otherNS}
	case x < 18:
		t.NamespaceSelector = &metav1.LabelSelector{MatchLabels: map[string]string{LabelNSEnv: "prod"}}
	case x < 19:
		t.NamespaceSelector = &metav1.LabelSelector{}
	default:
		// both fields: the term applies to the UNION of the listed and the selected namespaces. The listed one holds
		// pods and is (default: always, ns-b: half of the worlds) not selected by the selector, so an implementation
		// that lets the selector replace the list loses it (seeded change C02-e).
		t.Namespaces = []string{otherNS, "ns-c"}
		t.NamespaceSelector = &metav1.LabelSelector{MatchLabels: map[string]string{LabelNSEnv: "dev"}}
	}
	return t
}

func policyPtr(rng *rand.Rand) *corev1.NodeInclusionPolicy {
	switch rng.Intn(3) {
	case 0:
		return nil
	case 1:
		p := corev1.NodeInclusionPolicyHonor
		return &p
	default:
		p := corev1.NodeInclusionPolicyIgnore
		return &p
	}
}

// C02Deployments generates n deployment templates.
func C02Deployments(rng *rand.Rand, n int, cfg C02Cfg) []*C02Deployment {
	var out []*C02Deployment
	for i := 0; i < n; i++ {
		d := &C02Deployment{Name: fmt.Sprintf("d%d", i), Namespace: "default", Selector: map[string]string{}}
		if rng.Intn(3) == 0 {
			d.Namespace = "ns-b"
		}
		d.CPU = []int64{100, 250, 500, 900, 1000, 1500, 2000, 3500}[rng.Intn(8)]
		d.Mem = []int64{64, 128, 256, 512, 1024}[rng.Intn(5)]
		aff := &corev1.Affinity{}
		// node-level constraints: only over zone / capacity-type / cell (the keys the realisation checker enumerates);
		// never both a nodeSelector and a node-affinity expression on the same key (known contradictory-selector finding).
		if rng.Float64() < cfg.PNodeLevel {
			switch rng.Intn(6) {
			case 0:
				d.Selector[corev1.LabelTopologyZone] = Zones[rng.Intn(len(Zones))]
			case 1:
				aff.NodeAffinity = &corev1.NodeAffinity{RequiredDuringSchedulingIgnoredDuringExecution: &corev1.NodeSelector{NodeSelectorTerms: []corev1.NodeSelectorTerm{
					{MatchExpressions: []corev1.NodeSelectorRequirement{NSR(corev1.LabelTopologyZone, corev1.NodeSelectorOpIn, subset(rng, Zones)...)}}}}}
			case 2:
				aff.NodeAffinity = &corev1.NodeAffinity{RequiredDuringSchedulingIgnoredDuringExecution: &corev1.NodeSelector{NodeSelectorTerms: []corev1.NodeSelectorTerm{
					{MatchExpressions: []corev1.NodeSelectorRequirement{NSR(corev1.LabelTopologyZone, corev1.NodeSelectorOpNotIn, Zones[rng.Intn(len(Zones))])}}}}}
			case 3:
				d.Selector[v1.CapacityTypeLabelKey] = CapTypes[rng.Intn(2)]
			case 4:
				d.Selector[LabelCell] = Cells[rng.Intn(len(Cells))]
			case 5: // two OR-terms (the first may be relaxed away)
				aff.NodeAffinity = &corev1.NodeAffinity{RequiredDuringSchedulingIgnoredDuringExecution: &corev1.NodeSelector{NodeSelectorTerms: []corev1.NodeSelectorTerm{
					{MatchExpressions: []corev1.NodeSelectorRequirement{NSR(corev1.LabelTopologyZone, corev1.NodeSelectorOpIn, Zones[rng.Intn(len(Zones))])}},
					{MatchExpressions: []corev1.NodeSelectorRequirement{NSR(corev1.LabelTopologyZone, corev1.NodeSelectorOpIn, subset(rng, Zones)...)}}}}}
			}
		}
		if rng.Float64() < cfg.PPreferred/2 {
			if aff.NodeAffinity == nil {
				aff.NodeAffinity = &corev1.NodeAffinity{}
			}
			aff.NodeAffinity.PreferredDuringSchedulingIgnoredDuringExecution = []corev1.PreferredSchedulingTerm{{Weight: int32(1 + rng.Intn(100)),
				Preference: corev1.NodeSelectorTerm{MatchExpressions: []corev1.NodeSelectorRequirement{NSR(corev1.LabelTopologyZone, corev1.NodeSelectorOpIn, Zones[rng.Intn(len(Zones))])}}}}
		}
		if rng.Intn(3) == 0 {
			d.Tolerations = []corev1.Toleration{{Key: "dedicated", Operator: corev1.TolerationOpExists}}
		}
		// pod affinity
		if rng.Float64() < cfg.PAffinity {
			pa := &corev1.PodAffinity{}
			for k := 0; k <= rng.Intn(5)/4; k++ {
				pa.RequiredDuringSchedulingIgnoredDuringExecution = append(pa.RequiredDuringSchedulingIgnoredDuringExecution, c02Term(rng, i, n, d.Namespace))
			}
			aff.PodAffinity = pa
		}
		if rng.Float64() < cfg.PPreferred {
			if aff.PodAffinity == nil {
				aff.PodAffinity = &corev1.PodAffinity{}
			}
			for k := 0; k <= rng.Intn(2); k++ {
				aff.PodAffinity.PreferredDuringSchedulingIgnoredDuringExecution = append(aff.PodAffinity.PreferredDuringSchedulingIgnoredDuringExecution,
					corev1.WeightedPodAffinityTerm{Weight: int32(1 + rng.Intn(100)), PodAffinityTerm: c02Term(rng, i, n, d.Namespace)})
			}
		}
		// pod anti-affinity
		if rng.Float64() < cfg.PAntiAffinity {
			pa := &corev1.PodAntiAffinity{}
			for k := 0; k <= rng.Intn(4)/3; k++ {
				pa.RequiredDuringSchedulingIgnoredDuringExecution = append(pa.RequiredDuringSchedulingIgnoredDuringExecution, c02Term(rng, i, n, d.Namespace))
			}
			aff.PodAntiAffinity = pa
		}
		if rng.Float64() < cfg.PPreferred {
			if aff.PodAntiAffinity == nil {
				aff.PodAntiAffinity = &corev1.PodAntiAffinity{}
			}
			for k := 0; k <= rng.Intn(2); k++ {
				aff.PodAntiAffinity.PreferredDuringSchedulingIgnoredDuringExecution = append(aff.PodAntiAffinity.PreferredDuringSchedulingIgnoredDuringExecution,
					corev1.WeightedPodAffinityTerm{Weight: int32(1 + rng.Intn(100)), PodAffinityTerm: c02Term(rng, i, n, d.Namespace)})
			}
		}
		if aff.NodeAffinity != nil || aff.PodAffinity != nil || aff.PodAntiAffinity != nil {
			d.Affinity = aff
		}
		// topology spread
		if rng.Float64() < cfg.PSpread {
			for k := 0; k <= rng.Intn(3)/2; k++ {
				c := corev1.TopologySpreadConstraint{TopologyKey: c02Key(rng), MaxSkew: int32(1 + rng.Intn(3)), WhenUnsatisfiable: corev1.DoNotSchedule,
					LabelSelector: c02Selector(rng, i, n)}
				if rng.Intn(4) == 0 {
					c.WhenUnsatisfiable = corev1.ScheduleAnyway
				}
				if c.WhenUnsatisfiable == corev1.DoNotSchedule && rng.Intn(3) == 0 {
					md := int32(2 + rng.Intn(4))
					c.MinDomains = &md
				}
				c.NodeAffinityPolicy = policyPtr(rng)
				c.NodeTaintsPolicy = policyPtr(rng)
				if rng.Intn(4) == 0 {
					c.MatchLabelKeys = []string{LabelVersion}
				}
				d.Spread = append(d.Spread, c)
			}
		}
		out = append(out, d)
	}
	return out
}

// Pod instantiates one pending pod of the deployment. bare=true yields a "legacy" replica: same labels, same
// node-level constraints and tolerations, but no inter-pod constraints of its own (used to pre-build skewed distributions).
func (d *C02Deployment) Pod(name, version string, cpu, mem int64, bare bool) *corev1.Pod {
	p := Pod(name, cpu, mem, WithLabels(LabelApp, d.Name, LabelVersion, version), WithOwner("ReplicaSet", d.Name+"-rs"))
	p.Namespace = d.Namespace
	for k, v := range d.Selector {
		WithNodeSelector(k, v)(p)
	}
	p.Spec.Tolerations = append([]corev1.Toleration(nil), d.Tolerations...)
	if d.Affinity != nil {
		a := d.Affinity.DeepCopy()
		if bare {
			a.PodAffinity, a.PodAntiAffinity = nil, nil
		}
		if a.NodeAffinity != nil || a.PodAffinity != nil || a.PodAntiAffinity != nil {
			p.Spec.Affinity = a
		}
	}
	if !bare {
		for _, c := range d.Spread {
			p.Spec.TopologySpreadConstraints = append(p.Spec.TopologySpreadConstraints, *c.DeepCopy())
		}
	}
	return p
}
