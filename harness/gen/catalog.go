// Package gen holds the seeded, size-bounded, boundary-biased generators shared by all properties.
package gen

import (
	"fmt"
	"math/rand"

	corev1 "k8s.io/api/core/v1"
	"k8s.io/apimachinery/pkg/api/resource"

	v1 "sigs.k8s.io/karpenter/pkg/apis/v1"
	"sigs.k8s.io/karpenter/pkg/cloudprovider"
	"sigs.k8s.io/karpenter/pkg/scheduling"
)

const (
	// provider-specific well-known labels (registered like a real provider does)
	LabelFamily = "verif.io/instance-family" // enumerated
	LabelGen    = "verif.io/instance-gen"    // integer valued
	LabelSize   = "verif.io/instance-cpu"    // integer valued (cpu count)
	ResGPU      = corev1.ResourceName("verif.io/gpu")
	// custom (not well-known) label keys used by NodePools and pods
	LabelTeam = "example.com/team"
	LabelTier = "example.com/tier" // integer valued custom label
)

func init() {
	v1.WellKnownLabels.Insert(LabelFamily, LabelGen, LabelSize)
}

var (
	Zones    = []string{"zone-a", "zone-b", "zone-c"}
	CapTypes = []string{v1.CapacityTypeSpot, v1.CapacityTypeOnDemand}
	Archs    = []string{v1.ArchitectureAmd64, v1.ArchitectureArm64}
	Families = []string{"fa", "fb", "fc"}
)

// CatalogCfg tunes catalog generation.
type CatalogCfg struct {
	MinTypes, MaxTypes int
	Reserved           bool    // add reserved offerings
	PZeroPrice         float64 // probability that an offering is free (price overlays can set a price to exactly 0)
	// PReservedUnavailable: probability that a reserved offering is marked unavailable (an exhausted capacity reservation)
	PReservedUnavailable float64
	Overrides            bool    // capacity/overhead overrides on some offerings
	GPU                  bool    // some types carry the extended resource
	PUnavailable         float64 // probability an offering is unavailable
	PriceTies            bool
	SpotInversion        bool // spot sometimes dearer than on-demand
	Windows              bool
}

func DefaultCatalogCfg() CatalogCfg {
	return CatalogCfg{MinTypes: 3, MaxTypes: 8, Overrides: true, GPU: true, PUnavailable: 0.15, PriceTies: true, SpotInversion: true}
}

func Q(s string) resource.Quantity { return resource.MustParse(s) }

// TypeSpec is the serialisable description of a generated instance type (for evidence / replay).
type TypeSpec struct {
	Name      string
	CPU       int
	MemGi     int
	Pods      int
	GPU       int
	Arch      string
	Family    string
	Gen       int
	Offerings []OfferingSpec
}

type OfferingSpec struct {
	Zone, CapType       string
	Price               float64
	Available           bool
	ReservationID       string
	ReservationCapacity int
	CPUOverride         int // 0 = none
}

// Catalog generates instance types. The same rng state always yields the same catalog.
func Catalog(rng *rand.Rand, cfg CatalogCfg, prefix string) ([]*cloudprovider.InstanceType, []TypeSpec) {
	n := cfg.MinTypes + rng.Intn(cfg.MaxTypes-cfg.MinTypes+1)
	var its []*cloudprovider.InstanceType
	var specs []TypeSpec
	cpus := []int{1, 2, 4, 8, 16}
	for i := 0; i < n; i++ {
		cpu := cpus[rng.Intn(len(cpus))]
		mem := cpu * []int{1, 2, 4}[rng.Intn(3)]
		pods := []int{3, 5, 8, 16, 110}[rng.Intn(5)]
		gpu := 0
		if cfg.GPU && rng.Intn(4) == 0 {
			gpu = []int{1, 2, 4}[rng.Intn(3)]
		}
		spec := TypeSpec{Name: fmt.Sprintf("%st%d-c%d-m%d", prefix, i, cpu, mem), CPU: cpu, MemGi: mem, Pods: pods, GPU: gpu,
			Arch: Archs[boolIdx(rng.Intn(5) == 0)], Family: Families[rng.Intn(len(Families))], Gen: 1 + rng.Intn(6)}
		base := float64(cpu)*0.04 + float64(mem)*0.005 + float64(gpu)*0.9
		if cfg.PriceTies && rng.Intn(4) == 0 {
			base = float64(int(base*10)) / 10 // coarse rounding produces ties
			if base == 0 {
				base = 0.1
			}
		}
		nz := 1 + rng.Intn(len(Zones))
		zperm := rng.Perm(len(Zones))[:nz]
		for _, zi := range zperm {
			for _, ct := range CapTypes {
				if rng.Intn(6) == 0 {
					continue // this (zone, capacity type) is not offered at all
				}
				price := base
				if ct == v1.CapacityTypeSpot {
					f := 0.3 + 0.6*rng.Float64()
					if cfg.SpotInversion && rng.Intn(8) == 0 {
						f = 1.0 + 0.3*rng.Float64()
					}
					if cfg.PriceTies && rng.Intn(8) == 0 {
						f = 1.0
					}
					price = base * f
				}
				if cfg.PZeroPrice > 0 && rng.Float64() < cfg.PZeroPrice {
					price = 0
				}
				o := OfferingSpec{Zone: Zones[zi], CapType: ct, Price: round4(price), Available: rng.Float64() >= cfg.PUnavailable}
				if cfg.Overrides && rng.Intn(10) == 0 && cpu > 1 {
					o.CPUOverride = cpu - 1
				}
				spec.Offerings = append(spec.Offerings, o)
			}
			if cfg.Reserved && rng.Intn(3) == 0 {
				ro := OfferingSpec{Zone: Zones[zi], CapType: v1.CapacityTypeReserved, Price: round4(base * 0.01), Available: true,
					ReservationID: fmt.Sprintf("r-%d", rng.Intn(3)), ReservationCapacity: rng.Intn(4)}
				if cfg.PReservedUnavailable > 0 && rng.Float64() < cfg.PReservedUnavailable {
					ro.ReservationCapacity = 0
				}
				// provider contract (see the fake / AWS providers): a reservation without remaining capacity is offered as unavailable
				ro.Available = ro.ReservationCapacity > 0
				spec.Offerings = append(spec.Offerings, ro)
			}
		}
		if len(spec.Offerings) == 0 {
			spec.Offerings = []OfferingSpec{{Zone: Zones[0], CapType: v1.CapacityTypeOnDemand, Price: round4(base), Available: true}}
		}
		specs = append(specs, spec)
		its = append(its, BuildType(spec))
	}
	return its, specs
}

func round4(f float64) float64 { return float64(int64(f*10000+0.5)) / 10000 }

func boolIdx(b bool) int {
	if b {
		return 1
	}
	return 0
}

// BuildType materialises a TypeSpec. Requirements are defined for every well-known label, as the
// provider contract demands.
func BuildType(s TypeSpec) *cloudprovider.InstanceType {
	capacity := corev1.ResourceList{
		corev1.ResourceCPU:              Q(fmt.Sprintf("%d", s.CPU)),
		corev1.ResourceMemory:           Q(fmt.Sprintf("%dGi", s.MemGi)),
		corev1.ResourcePods:             Q(fmt.Sprintf("%d", s.Pods)),
		corev1.ResourceEphemeralStorage: Q("20Gi"),
	}
	if s.GPU > 0 {
		capacity[ResGPU] = Q(fmt.Sprintf("%d", s.GPU))
	}
	var ofs cloudprovider.Offerings
	zones, cts := map[string]bool{}, map[string]bool{}
	for _, o := range s.Offerings {
		reqs := scheduling.NewRequirements(
			scheduling.NewRequirement(corev1.LabelTopologyZone, corev1.NodeSelectorOpIn, o.Zone),
			scheduling.NewRequirement(v1.CapacityTypeLabelKey, corev1.NodeSelectorOpIn, o.CapType),
		)
		if o.CapType == v1.CapacityTypeReserved {
			reqs.Add(scheduling.NewRequirement(cloudprovider.ReservationIDLabel, corev1.NodeSelectorOpIn, o.ReservationID))
		} else if cloudprovider.ReservationIDLabel != "" {
			reqs.Add(scheduling.NewRequirement(cloudprovider.ReservationIDLabel, corev1.NodeSelectorOpDoesNotExist))
		}
		of := &cloudprovider.Offering{Requirements: reqs, Price: o.Price, Available: o.Available, ReservationCapacity: o.ReservationCapacity}
		if o.CPUOverride > 0 {
			of.CapacityOverride = corev1.ResourceList{corev1.ResourceCPU: Q(fmt.Sprintf("%d", o.CPUOverride))}
		}
		ofs = append(ofs, of)
		if o.Available {
			zones[o.Zone] = true
			cts[o.CapType] = true
		}
	}
	reqs := scheduling.NewRequirements(
		scheduling.NewRequirement(corev1.LabelInstanceTypeStable, corev1.NodeSelectorOpIn, s.Name),
		scheduling.NewRequirement(corev1.LabelArchStable, corev1.NodeSelectorOpIn, s.Arch),
		scheduling.NewRequirement(corev1.LabelOSStable, corev1.NodeSelectorOpIn, string(corev1.Linux)),
		scheduling.NewRequirement(corev1.LabelTopologyZone, corev1.NodeSelectorOpIn, keys(zones)...),
		scheduling.NewRequirement(v1.CapacityTypeLabelKey, corev1.NodeSelectorOpIn, keys(cts)...),
		scheduling.NewRequirement(LabelFamily, corev1.NodeSelectorOpIn, s.Family),
		scheduling.NewRequirement(LabelGen, corev1.NodeSelectorOpIn, fmt.Sprintf("%d", s.Gen)),
		scheduling.NewRequirement(LabelSize, corev1.NodeSelectorOpIn, fmt.Sprintf("%d", s.CPU)),
	)
	return &cloudprovider.InstanceType{
		Name: s.Name, Requirements: reqs, Offerings: ofs, Capacity: capacity,
		Overhead: &cloudprovider.InstanceTypeOverhead{
			KubeReserved:      corev1.ResourceList{corev1.ResourceCPU: Q("100m"), corev1.ResourceMemory: Q("100Mi")},
			SystemReserved:    corev1.ResourceList{corev1.ResourceMemory: Q("50Mi")},
			EvictionThreshold: corev1.ResourceList{corev1.ResourceMemory: Q("50Mi")},
		},
	}
}

func keys(m map[string]bool) []string {
	out := make([]string, 0, len(m))
	for _, z := range append(append(append([]string{}, Zones...), CapTypes...), v1.CapacityTypeReserved) {
		if m[z] {
			out = append(out, z)
		}
	}
	return out
}
