#!/bin/bash
# MANIFEST.setup_cmd: build both harness binaries once so that the Go build cache is warm.
set -e
cd "$(dirname "$0")/harness"
TC=/root/go/pkg/mod/golang.org/toolchain@v0.0.1-go1.26.6.linux-amd64/bin
if [ -d "$TC" ]; then export PATH=$TC:$PATH GOTOOLCHAIN=local; fi
export GOFLAGS=-mod=mod GOPROXY=off GOSUMDB=off
mkdir -p ../bin ../evidence ../replays ../work
go build -tags verif,all -o ../bin/vharness ./cmd/vharness
go build -race -tags verif,all -o ../bin/vharness-race ./cmd/vharness
echo setup ok
