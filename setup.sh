#!/bin/bash
# MANIFEST.setup_cmd: build the harness once (plain and -race) for the claimed properties so that the Go
# build cache is warm; every ./check invocation rebuilds incrementally against /repo's working tree.
set -e
cd "$(dirname "$0")"
TC=/root/go/pkg/mod/golang.org/toolchain@v0.0.1-go1.26.6.linux-amd64/bin
if [ -d "$TC" ]; then export PATH=$TC:$PATH GOTOOLCHAIN=local; fi
export GOFLAGS=-mod=mod GOPROXY=off GOSUMDB=off
TAGS=$(python3 -c "import json;print(','.join(['verif']+[c['property_id'].lower() for c in json.load(open('MANIFEST.json'))['checks']]))")
mkdir -p bin evidence replays work
cd harness
go build -tags "$TAGS" -o ../bin/vharness ./cmd/vharness
go build -race -tags "$TAGS" -o ../bin/vharness-race ./cmd/vharness
echo "setup ok ($TAGS)"
