#!/bin/bash
# usage: try_mutants.sh <PROP> [tier]  — applies every /verif/mutants/<PROP>/M*.patch (or *.patch not named SUGGESTED*) to /repo in turn,
# runs the property's check and prints whether an UNLISTED violation was reported (exit 1). Always restores /repo and the evidence file.
P=$1; TIER=${2:-quick}
cd /repo && git status --short | grep -v '^??' | grep . && { echo "/repo not clean"; exit 2; }
cp /verif/evidence/$P.json /tmp/evidence-$P.keep 2>/dev/null
for m in /verif/mutants/$P/*.patch; do
  case $(basename $m) in SUGGESTED*|suggested*) continue;; esac
  if ! git -C /repo apply -p1 "$m" 2>/dev/null && ! git -C /repo apply -p0 "$m" 2>/dev/null && ! (cd / && patch -p0 -s -f < "$m" >/dev/null 2>&1); then echo "$(basename $m): DOES-NOT-APPLY"; git -C /repo checkout -- .; continue; fi
  out=$(cd /verif && ./check $P $TIER 2>&1); rc=$?
  echo "$(basename $m): exit=$rc $(echo "$out" | grep '^property' | sed 's/.*evaluations/evaluations/') $(echo "$out" | grep -c '^VIOLATION') violation-keys"
  git -C /repo checkout -- .
done
[ -f /tmp/evidence-$P.keep ] && mv /tmp/evidence-$P.keep /verif/evidence/$P.json
