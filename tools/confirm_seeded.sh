#!/bin/bash
# usage: confirm_seeded.sh <prop> <suffix>  — confirms a sub-agent's seeded change in its worktree /tmp/mut/<prop lower>-<suffix>:
# tracked changes are dropped (the untracked demonstration stays), demo must pass; patch.diff is applied, demo must fail;
# the existing offline suite must still pass with the change.
set -u
P=$1; S=$2; p=$(echo $P | tr A-Z a-z); WT=/tmp/mut/$p-$S; OUT=$WT/_out
export GOFLAGS=-mod=mod GOPROXY=off
[ -f $OUT/patch.diff ] || { echo "no patch"; exit 2; }
cd $WT || exit 2
git checkout -q -- .
DEMOCMD=$(grep -v '^#' $OUT/demo_cmd.txt | grep . | grep 'go test\|go run' | tail -1)
# make sure the demonstration file sits in the package the command tests
PKG=$(echo "$DEMOCMD" | grep -o '\./pkg/[A-Za-z0-9_/.-]*' | head -1 | sed 's#/\.\.\.$##')
for f in $OUT/*_test.go; do [ -f "$f" ] && [ -n "$PKG" ] && [ -d "$WT/$PKG" ] && [ -z "$(find $WT/pkg $WT/hack -name $(basename $f) 2>/dev/null | head -1)" ] && cp "$f" "$WT/$PKG/"; done
echo "== demo WITHOUT change: $DEMOCMD"; ( eval "$DEMOCMD" ) > /tmp/confirm.$$.a 2>&1; RA=$?; tail -3 /tmp/confirm.$$.a | cut -c1-200
git apply $OUT/patch.diff || { echo "PATCH DOES NOT APPLY"; exit 1; }
echo "== demo WITH change"; ( eval "$DEMOCMD" ) > /tmp/confirm.$$.b 2>&1; RB=$?; tail -6 /tmp/confirm.$$.b | cut -c1-200
echo "== existing suite with change"; /tmp/mut-tools/baseline.sh $WT | tail -3; RC=${PIPESTATUS[0]}
echo "RESULT demo_without=$RA demo_with=$RB suite=$RC  (want 0, non-zero, 0)"
rm -f /tmp/confirm.$$.*
