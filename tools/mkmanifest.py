#!/usr/bin/env python3
"""Regenerates /verif/MANIFEST.json from the table below (single source of truth for what is claimed)."""
import json
import os
import subprocess

VERIF = os.path.dirname(os.path.dirname(os.path.abspath(__file__)))

# id -> (level, design_ref, technique, level text, level note)   — only properties with a working check
CLAIMED = {
    "C01": ("exploration", "DESIGN.md §3 C01",
            "runtime monitor: real Provisioner.Schedule on generated worlds; every placement judged by an independent admissibility oracle (upstream nodeaffinity/toleration/pod-request code + first-principles host ports and sums) on every concrete node each launch option can become",
            "Thousands of generated worlds (catalogs with unavailable / overridden / reserved offerings, NodePools over all operators, daemonsets, managed nodes grown through the real provision→launch→register→initialize pipeline, unmanaged and deleting nodes) x pod batches x {preference policy, minValues policy, parallelism, ReservedCapacity}; each placement on an existing node is checked against provider/API ground truth, each new NodeClaim against every instance-type option x available compatible offering x concrete label assignment. Held-on-observed.",
            "Trusts the oracle (upstream k8s matchers, 300 lines of first-principles checks), the fake API server and the hostile provider. PV zones (OR-ed and multi-valued terms, several volumes per pod with nested zone sets), StorageClass allowedTopologies and CSINode limits are generated in 30% of the worlds. One recorded finding (unsatisfiable conjunction represented as DoesNotExist)."),
    "C02": ("exploration", "DESIGN.md §3 C02",
            "runtime monitoring of the real Provisioner.Schedule with a realisation-enumerating end-state oracle written from the Kubernetes documentation / kube-scheduler filter semantics (shares no code with Karpenter's topology code; upstream label-selector, nodeaffinity and toleration matchers only), plus a Go race detector pass over parallel template evaluation (diagnostic)",
            "Each generated world (catalog with partly unavailable zones, 1-3 NodePools with zone / capacity-type / custom-key requirements and taints, labelled namespaces, unmanaged nodes incl. ones lacking topology labels, terminating / terminal pods, deleting nodes, pre-existing skew and anti-affinity replicas bound through the real pipeline) is scheduled three times by the real Provisioner.Schedule with 1-3 deployments carrying required / preferred pod (anti-)affinity (namespaces, namespaceSelector) and DoNotSchedule / ScheduleAnyway spreads (maxSkew 1-3, minDomains, both node inclusion policies, matchLabelKeys) under PRNG-chosen preference policy and parallelism. Every pass is judged in EVERY concrete assignment of (zone, capacity-type, custom key) to the new NodeClaims (instance-type option x available offering x custom values, capped at 512): required anti-affinity in both directions incl. running pods, required affinity with the first-pod exception decided by cycle detection over commit orders, and a final-state necessary condition for maxSkew flagged only if every defensible reading (first remaining node-affinity term vs OR of all, raw vs persistent taints, deleting node present or gone, ...) flags. Two genuine defects fixed, five recorded. 16 of 17 mutants caught.",
            "The spread check is a necessary end-state condition (pre-existing skew is not judged, admission order is not replayed); root-cause classification only names the violation key (known-finding matching relies on it; anything it cannot attribute keeps a generic key and alarms); pod node constraints limited to zone / capacity-type / one custom key; Requirement.Any() is unseeded, so custom label draws differ between replays."),
    "C03": ("exploration", "DESIGN.md §3 C03",
            "runtime monitor: synchronous API-boundary monitors (every NodeClaim create / provider Create), an independent capacity-sum oracle on provider / API ground truth, deterministic interleavings of other controllers at the API-call boundaries of a reconcile, a concurrent pass under the Go race detector, a bounded-progress (settling) check, panic capture via utilruntime.PanicHandlers, quiescent-barrier invariants plus a porcupine diagnostic on a bare NodePoolState",
            "Generated dynamic worlds with boundary limits on cpu / memory / nodes / an extended resource are driven for 3-8 rounds through the real Provisioner.Reconcile (batcher, Synced() gate, Schedule, CreateNodeClaims) and the real lifecycle controller against a hostile provider (largest, largest-by-limited-resource, random) with partial informer delivery, deletes and restarts; per-pool launched non-deleting capacity (Node capacity once registered, provider truth before) is compared with every limit after every provider Create and driver step. StaticCapacity worlds step the real static provisioning and deprovisioning, disruption (StaticDrift) with its queue, hash, nodeclaim-disruption, lifecycle and informer controllers in PRNG order, with other controllers interleaved at API-call boundaries and in real goroutines under -race, under replica and template edits, external deletes and API faults: NodeClaim count vs limits.nodes is checked synchronously at every create, settling at min(replicas, limit) within 40 fault-free rounds, and any panic is a violation. 8-16 goroutines also hammer a bare NodePoolState (Reserve grants checked against limit-(active+deleting+pending+reserved) at quiescent barriers). Five genuine defects found and fixed. Held-on-observed.",
            "Trusts the fake API server, the provider's ground truth, the first-principles capacity-sum oracle and the harness actors standing in for kubelet and node termination; the hook client interleaves only at API-call boundaries of the hooked controllers; 'settles' is restated as 40 fault-free PRNG-ordered rounds; limits are never edited during a history; the ExceededBy safety net in Provisioner.Create never decided (mutant missed); porcupine verdict is diagnostic only."),
    "C04": ("exploration", "DESIGN.md §3 C04",
            "runtime monitor: lifecycle replay through the real provisioner + lifecycle controller + kubelet actor with a hostile provider; every pod on a new NodeClaim judged inadmissible on every active existing node (independent oracle, provider ground truth); API read log watched for scheduling passes while a NodeClaim is unlaunched",
            "Pods without inter-pod constraints or preferences are provisioned and deliberately left pending while each created NodeClaim moves at its own pace through created/launched/node-appeared/registered/initialized; provisioning is re-run after every step (3-8 passes per case) and each pod placed on new capacity must be inadmissible on all existing/in-flight nodes with their final load, nodes marked for deletion must not receive pods, and the real Provisioner.Reconcile must not reach a scheduling pass while a claim is unlaunched. Held-on-observed.",
            "Judges 'could admit' with the constraints Karpenter evaluates for the placed copy (first required OR-term, PreferNoSchedule treated as hard) so that only placements wrong under every reading alarm; half of the worlds carry a sizeable daemonset selecting on an instance type / zone / arch / a well-known label nobody defines (its true per-node admissibility is what the oracle uses); trusts oracle, fake API, provider ground truth."),
    "C14": ("fault_enumeration", "DESIGN.md §3 C14",
            "runtime monitoring with per-call fault, crash-point and lost-response enumeration: provider call log (at most one successful Create per UID per controller lifetime, finalizer stored before Create) and a synchronous post-write monitor on NodeClaim status writes (condition order and observable preconditions on the authoritative store), capacity-error deletion monitor",
            "NodeClaims produced by the real Provisioner are driven by the real lifecycle controller and an emulated kubelet in PRNG orders with fresh or monotonically lagging snapshots; each scenario is run fault-free to enumerate Karpenter's K calls and then once per (error kind, call), per crash point (restart rebuilds all in-memory state incl. the launch cache) and per lost-response write. Launched/Registered/Initialized may only become True in order and with their preconditions true at the instant of the write; capacity errors must delete the claim. Ten mutants caught. Held-on-observed.",
            "One fault per run (quick: 500 / 409 / 404 on every write; thorough adds 429 / timeout and reads); staleness only for the reconciled NodeClaim; one claim in ten is deleted externally before its first reconcile; 'instance created but error returned' not modelled; trusts fake client merge-patch / optimistic-lock semantics."),
    "C15": ("exploration", "DESIGN.md §3 C15",
            "runtime monitoring of the unmodified hash / scheduler / lifecycle / nodeclaim-disruption controllers with independent oracles: reflection-generated differential hash check, and Kubernetes label-selector semantics over stored labels and annotations for drift; every launch choice the serialized NodeClaim permits is launched",
            "Part (a) walks a randomly populated NodePoolSpec by reflection: every template leaf set to two values must change the hash unless under requirements, permutations and non-template edits never do. Part (b) drives validation-accepted NodePools (CRD+CEL+RuntimeValidate) through the real hash controller, scheduler, Provisioner.Create / static provisioning, lifecycle launch of EVERY permitted (instance type, offering) and the real nodeclaim disruption controller: a fresh claim must not be Drifted. Part (c) edits the pool (violating / benign requirement edits, hashed-field edits, reorders, hash-version scenarios, reverts) and checks Drifted appears exactly when the statement says. One genuine defect fixed (Any() drawing excluded values), three recorded.",
            "One NodePool per world; hash controller always reconciles before the disruption controller; provider IsDrifted kept empty; CRD create rules only."),
    "C16": ("fault_enumeration", "DESIGN.md §3 C16",
            "runtime monitor: synchronous PostWrite monitor on every NodeClaim / Node delete attributed by call stack to expiration, garbage collection, liveness or node health, judged against independent trigger oracles on ground truth (un-intercepted store, provider instance table, virtual clock); per-call read-fault enumeration (count K, rebuild, fail read k) plus persistent outages",
            "Prepared NodeClaim/Node/provider states grown through the real provision->launch->register->initialize pipeline are decided by the real expiration, garbage-collection, lifecycle (liveness) and node-health reconcilers at threshold -1 s / -1 ms / 0 / +1 ms / +1 s on the virtual clock; each decision runs fault-free and then once per read call (API get/list, provider list) x {500, 404, timeout}, plus persistent outages. Every delete issued by a reaper is judged at the instant of the write against the documented trigger. Twelve mutants caught; one genuine defect found and fixed (GC deleting after a failed Node lookup).",
            "Only the only-if direction is checked (more conservative reapers are invisible); GC worker order is uncontrolled (sticky Node-lookup fault complements the index enumeration); duplicate nodes per claim and write failures not generated."),
    "C17": ("exploration", "DESIGN.md §3 C17",
            "runtime monitoring of the real scheduler on generated inputs: per-reservation holder counts, pins and strict-mode deferrals judged on scheduling.Results and the serialized NodeClaim; DRA allocations judged from Results.DRAClaimAllocationMetadata against the generator's device table; Go race detector (diagnostic)",
            "Generated worlds with dense reserved offerings (ids shared across instance types and weighted pools, capacities 0-3) and DRA populations (exclusive, consumable-capacity and partitionable devices; node-local, cluster-wide and template slices) are scheduled by the real Provisioner.Schedule under parallelism 1/4/8; per reservation id the claims able to launch into it never exceed the smallest advertised capacity, pinned claims carry exactly reserved + a finite compatible id set, strict mode defers instead of falling back, and no exclusive device / shared capacity / counter is over-committed over all co-occurring (NodeClaim, instance type) combinations. 14 of 15 mutants caught. Held-on-observed.",
            "DRA breadth bounded (no request policies, match/distinct-attribute constraints, FirstAvailable/All modes, admin access); single pass only; trusts generators, the admissibility oracle and read-only reflection of the placeholder hostname."),
    "C18": ("exploration", "DESIGN.md §3 C18",
            "runtime monitoring with a complete before/after world digest (API objects incl. resourceVersions, write log, provider calls, per-node cluster state incl. unexported maps via read-only reflection, every instance type / offering / requirement incl. slice order, pristine-catalog check), API-call interception, Go race detector (diagnostic)",
            "On generated clusters grown through the real pipeline, 1-20 consecutive real simulations (SimulateScheduling on candidate subsets, every disruption method's ComputeCommands with real or zero budgets and no StartCommand, Provisioner.Schedule without creating NodeClaims) are run under live, expired, cancelled and API-timeout contexts and the digest is compared before/after; a provisioning pass may only change nominations and pod bookkeeping. Ten of eleven mutants caught (the miss concerns caller-owned pods, outside the digest by design). One genuine defect found and fixed (simulations writing pod bookkeeping).",
            "The fake client deep-copies on every read, so in-place edits of informer-cache objects obtained with UnsafeDisableDeepCopy cannot be observed; InstanceType's lazy sync.Once cache is excluded as derived data; no static pools / DRA / capacity buffers generated."),
    "C19": ("exploration", "DESIGN.md §3 C19",
            "runtime monitor: real Scheduler.Solve/Truncate/Create on weighted pools; opener pod of each new NodeClaim judged (conservatively) infeasible on every heavier pool; instance types captured at the API boundary priced against the scheduler's pre-truncation options; race detector pass over parallel template evaluation",
            "2-5 weighted NodePools (ties, nil weights) x catalogs with price ties x parallelism 1-16 x lowered MaxInstanceTypes: the pod that opens each NodeClaim must be infeasible on every strictly heavier ready pool under a deliberately conservative single-pod feasibility oracle, and no sent instance type may be dearer (cheapest compatible available offering) than an option that truncation left out. Data races between Karpenter code paths during parallel evaluation count as violations. Held-on-observed.",
            "Weight oracle skips pools with limits, minValues, custom-label requirements or a reserved-offering deferral (counted); feasibility uses the constraints Karpenter evaluates for the placed copy. Trusts oracle and fake API."),
    "C05": ("exploration", "DESIGN.md §3 C05",
            "runtime monitor: (1) differential monitor of the real Budget/NodePool budget methods against an independent cron+budget evaluator at instants on and around schedule boundaries; (2) cluster monitor over consecutive reconciles of the real disruption controller counting newly selected + already disrupting nodes per pool and reason against the allowance at every instant of the reconcile interval",
            "Budget lists (counts, percents, reasons absent/empty/subsets, cron schedules incl. macros, malformed and never-firing ones, durations) decoded with the real JSON decoder are evaluated ~1M times per quick run against a crontab(5)-derived evaluator; Karpenter allowing more than the most restrictive applicable active budget is a violation, stricter is a diagnostic. On generated clusters (incl. percentage-bound one-pod-per-node worlds with ready-but-uninitialised nodes, NotReady nodes, drift, commands left in flight, nodes going NotReady during the 15 s validation wait) no round may select more nodes than allowed. One genuine defect found and fixed (explicitly empty reasons list).",
            "Trusts the cron evaluator (minute-tick brute force, UTC), the fake API (typed round trip drops empty slices, so `reasons: []` is covered by the differential monitor only) and the harness' knowledge of in-flight commands."),
    "C06": ("exploration", "DESIGN.md §3 C06",
            "runtime monitor: real disruption controller (all methods, validation delay on the virtual clock) on clusters grown through the real pipeline; every Underutilized/Empty command entering the orchestration queue judged by the admissibility oracle and an independent price oracle (provider ground-truth prices, worst admitted launch)",
            "Clusters with over-provisioned, underutilised and empty nodes (hostile provider launch choices, price ties, spot/on-demand inversions, unavailable and capacity-overridden offerings, frozen pools, SpotToSpot gate both ways) are reconciled by the real disruption controller; each accepted consolidation command must re-home every reschedulable candidate pod admissibly on initialized non-candidate nodes or one replacement, every replacement option must be strictly cheaper in its worst admitted launch, and Empty commands may only drop pods with non-positive eviction cost. Held-on-observed; three recorded findings.",
            "No world churn during the 15 s validation wait (the command's own simulation results are judged); a third of the worlds have capacity reservations (half exhausted, offered as unavailable) with the ReservedCapacity gate on; no PDBs or do-not-disrupt in these worlds (C07 covers blockers); trusts oracle, fake API, provider ground truth."),
    "C07": ("exploration", "DESIGN.md §3 C07",
            "runtime monitor: real disruption controller on clusters where every node is attractive and carries at most one blocker; every candidate of every command entering the orchestration queue judged against the statement's conjunction recomputed from the authoritative world (nominations from the harness' own record); blockers also applied during the validation wait",
            "Clusters are made attractive for one mode (all empty / underutilised / drifted / drifted with terminationGracePeriod / mixed) with consolidateAfter 0s/5m/Never, policies WhenEmpty/WhenEmptyOrUnderutilized/Balanced and some uninitialised nodes; each node then gets at most one of 14 blockers or controls (node / pod / daemon-pod / terminal-pod do-not-disrupt in boolean and duration forms incl. expiry boundaries, PDB zero / double / allowing, nominated, nominated and renewed shortly before the first window ends, deleting, recent pod event) and more are applied during the 15 s validation wait. No command may contain a node the statement excludes; drift may override pod-level blockers only with a terminationGracePeriod. Held-on-observed; evidence lists per (method, blocker) how often blocked nodes were spared.",
            "Static pools / StaticDrift and capacity-buffer placements are not generated (no cell for them); nomination instants are the harness' own record of NominateNodeForPod calls and StartCommand placements; trusts PDB arithmetic of the fake eviction endpoint."),
    "C08": ("fault_enumeration", "DESIGN.md §3 C08",
            "runtime monitoring with per-call fault and crash-point enumeration: synchronous monitor on candidate NodeClaim deletes issued by the orchestration queue (judged against the replacements' Initialized condition on the authoritative store), rollback monitor over the API objects and cluster state after failed / crashed actions, double-command monitor",
            "Scenarios (clusters grown through the real pipeline; drift-with-pods / underutilised / mixed) let the real disruption controller start a command; an orchestration script interleaves queue reconciles with the replacements being launched, registered and initialised by the real lifecycle controller + kubelet actor in PRNG orders, with a replacement vanishing, stalling past the retry deadline, or initialising only after it. Each scenario is replayed with one injected 500 / 409 (/404) at every k-th Karpenter API or provider call from the round that starts the command on, and with a process crash + full in-memory restart at that call, each replay with its own interleaving. No candidate may be deleted before every replacement is Initialized; failed or crashed actions must have deleted nothing and must return candidates to service within 5 fault-free reconciles; no node in two commands. One genuine defect found and fixed.",
            "Crash = every Karpenter call from call k on fails without effect until the driver restarts all in-memory components (calls happen on worker goroutines, so a panic cannot be recovered at the reconcile boundary); quick enumerates every 3rd call of 16 scenarios; partial replacement-creation leaks are outside the statement."),
    "C09": ("fault_enumeration", "DESIGN.md §3 C09",
            "runtime monitoring with per-call fault and crash enumeration: synchronous monitor on every finalizer-removing write on Node and NodeClaim, judged against the authoritative store, the provider's ground-truth instance table (by NodeClaim UID) and the virtual clock",
            "Generated termination scenarios (NodeClaims from the real provisioner brought to every lifecycle stage, all pod / volume classes, PDBs, TGP or none, asynchronous instance termination, vanishing instances; emulated kubelet, attach-detach, node-lifecycle and cloud-controller-manager actors) are run fault-free to enumerate Karpenter's K API + provider calls, then re-run with an error (500/409/404/timeout), a crash + restart, or a permanent error at each call, followed by fault-free completion, with stale snapshots handed to the reconcilers. The Node finalizer may only go after cordon, drain, volume detach / TGP expiry and instance-gone (or the NotReady shortcut); the NodeClaim finalizer only after its Nodes and every instance created for its UID are gone. 8/8 mutants caught. One genuine defect fixed (same-lifetime leak), two restart variants recorded.",
            "Single-threaded schedules; stale reads only for the reconciled object; no lost-response faults; quick thins fault points (every third closing-phase call)."),
    "C10": ("exploration", "DESIGN.md §3 C10",
            "runtime monitoring: API-boundary event-log monitors (eviction sub-resource creates and pod deletes with grace, judged atomically with the write) plus Queue.Has observation over PRNG-interleaved and concurrent drain passes / eviction-queue reconciles; Go race detector",
            "The real node-termination controller, Terminator and eviction queue are executed on generated drain histories (pod mixes over priorities, owners, grace periods, do-not-disrupt forms, tolerations, terminating/terminal states; PDB layouts; NodeClaims with and without terminationGracePeriod; deadline annotation moved later/earlier/removed; pods replaced under the same name; clock swept across D-grace boundaries); every pod-removal call is judged by an independent re-implementation of the statement (removal mode, protected pods, tier ordering, deadline never pushed out). Part of the case list is repeated under the race detector, where a data race between Karpenter paths is a violation. Held-on-observed.",
            "Trusts the harness' eviction/PDB and graceful-delete emulation, the virtual clock, a reflection read of Queue.source as the work-queue feed and the oracle in props/c10/oracle.go; deadline-based direct deletion of static/tolerating pods is not flagged (the statement allows it)."),
    "C11": ("exploration", "DESIGN.md §3 C11",
            "runtime monitoring by differential state comparison: real informer controllers + state.Cluster driven by generated histories under PRNG delivery schedules (duplicates, postponed keys, deletions before older updates, honoured requeues, concurrent rounds) vs a fresh Cluster fed the same API content; accessors, behavioural probes and read-only reflection digests; Go race detector",
            "Generated histories of 10-60 Node/NodeClaim/Pod/DaemonSet changes plus MarkForDeletion/Unmark/Nominate calls are delivered to the real state informers under 3 (quick) / 5 (thorough) schedules each; after the latest version of every object has been observed, and again after a full re-delivery, every exported view (requests, limits, daemon requests, host ports, volume usage, disruption cost, capacity, marks, nominations, pool totals and node counts, anti-affinity bindings) and a reflection digest must equal a brand-new Cluster. Four genuine divergences found and fixed, one recorded. Data races between Karpenter paths are violations.",
            "Reference = Karpenter's own canonical-order path on a fresh Cluster cross-checked against first principles; unique provider ids, NodeClaim names never reused; concurrent runs are structured rounds."),
    "C12": ("exploration", "DESIGN.md §3 C12",
            "runtime monitoring of the real public methods of scheduling.Requirement/Requirements against plain operator semantics (cross-checked with upstream nodeaffinity) on a complete probe set plus an exact symbolic emptiness decision; exhaustive over a bounded universe, random n-ary folds and pod-vs-node cases on top",
            "Every requirement over 8 operators x argument lists of a 7-value (quick) / 9-value (thorough) universe incl. MaxInt/MinInt-adjacent bounds, every ordered pair and triple, and every pair of single-key requirement sets of <=2 atoms is executed against the real code: Has, Intersection, HasIntersection, Len, Operator, minValues, aliases, Requirements.Add/Compatible/Intersects with and without AllowUndefinedWellKnownLabels (~30M compatibility checks per quick run), plus random folds, multi-key sets and pod-vs-node cases judged by the upstream matcher. Exhaustive for the stated universe only; two genuine defects fixed, two recorded.",
            "Trusts oracle.Admits (cross-checked against upstream nodeaffinity), the probe-completeness argument (cross-checked against the symbolic decision), hard-coded copies of the alias tables; Any() excluded."),
    "C13": ("exploration", "DESIGN.md §3 C13",
            "runtime monitor: NodeClaim objects captured at the API boundary (interceptor) compared key-by-key over a probe universe with the scheduler's in-memory requirements; NodePools pre-filtered by the real in-process CRD schema + CEL + RuntimeValidate pipeline; panics recovered per Create",
            "NodePool requirements are redrawn over all eight operators with several requirements per key (well-known enumerated / integer and custom keys, incl. Lt 0, Gt+NotIn, Gte+Lte), kept only if a real API server would accept them, and pushed through the real Solve → Truncate → Provisioner.Create path; for every created NodeClaim the serialized requirements, instance-type list, minValues floors, resource requests, labels, taints and hash annotations are judged against the in-memory decision and the template. Held-on-observed; two genuine defects found and fixed.",
            "Trusts the plain operator semantics in world.AdmitsSerialized, the probe universe (mentioned values, integers around bounds, fresh string), the apiextensions-apiserver validation libraries and the fake API server."),
    "C20": ("exploration", "DESIGN.md §3 C20",
            "runtime monitor: real nodepoolhealth.State vs reference window (exhaustive bounded sequences + random), porcupine linearizability on concurrent histories, race detector, end-to-end condition monitor on the real lifecycle controllers",
            "Every operation sequence over {success, failure, reset, rehydrate-healthy, rehydrate-unhealthy} up to length 8 (quick) / 10 (thorough) is executed against the real tracker and compared step by step with a 4-slot reference window, including the what-if (DryRun) agreement; long random sequences, concurrent histories (porcupine + -race) and end-to-end runs through the real registration/liveness code extend this. Held-on-observed, exhaustive for the bounded sequence space only.",
            "Trusts the 20-line reference window model and, for the e2e part, the controller-runtime fake client's status-patch semantics."),
}

NOT_YET = {}


def load_props():
    out = []
    for line in open(os.path.join(VERIF, "properties.jsonl")):
        line = line.strip()
        if line:
            out.append(json.loads(line))
    return out


def main():
    props = load_props()
    try:
        hook_commits = [l.strip() for l in open(os.path.join(VERIF, "HOOK_COMMITS.txt")) if l.strip() and not l.startswith("#")]
    except FileNotFoundError:
        hook_commits = []
    checks, na = [], []
    for p in props:
        pid = p["id"]
        if pid in CLAIMED:
            level, ref, tech, text, note = CLAIMED[pid]
            checks.append({
                "property_id": pid,
                "quick_cmd": f"./check {pid} quick",
                "thorough_cmd": f"./check {pid} thorough",
                "evidence_file": f"/verif/evidence/{pid}.json",
                "replay_cmd_template": f"./check {pid} --replay {{path}}",
                "engine": "vharness",
                "level_claimed": {"category": level, "text": text, "design_ref": ref},
                "level_note": note,
                "technique": tech,
            })
        else:
            na.append({"property_id": pid, "reason": NOT_YET.get(pid, "check not built yet in this round (runtime-monitoring harness for it is planned in DESIGN.md §3; nothing is claimed until the monitor runs silently on the unchanged tree)")})
    m = {
        "version": 1,
        "setup_cmd": "./setup.sh",
        "hooks": {
            "guard": "verif",
            "enable": "go build -tags verif (the harness module /verif/harness replaces sigs.k8s.io/karpenter with /repo and is rebuilt by every check invocation)",
            "baseline_off_cmd": "/verif/tools/baseline_off.sh",
            "source_commits": hook_commits,
            "add_only": True,
        },
        "engines": [{
            "name": "vharness", "path": "/verif/harness",
            "serves_properties": [c["property_id"] for c in checks],
            "kind_free_text": "Go harness linking the real Karpenter packages from /repo: controller-runtime fake API server behind an interceptor (event log, synchronous monitors, fault/crash injection), hostile cloud provider, virtual clock, cluster actors, generators, independent oracles; child process per batch; Go race detector pass; porcupine for concurrent histories.",
        }],
        "checks": checks,
        "not_applicable": na,
        "notes": "Technique family: runtime monitoring and sanitizers only. Exit codes of ./check: 0 held on everything explored, 1 violation (VIOLATION line + replay file), 2 inconclusive (watchdog / monitor observed too little / harness failure; never with a VIOLATION line). KNOWN_FINDINGS.json lists recorded findings and fixed defects.",
    }
    with open(os.path.join(VERIF, "MANIFEST.json"), "w") as f:
        json.dump(m, f, indent=1)
    # validate
    try:
        import jsonschema
        jsonschema.validate(m, json.load(open("/root/.vp/MANIFEST.schema.json")))
        print("MANIFEST.json valid;", len(checks), "checks,", len(na), "not claimed")
    except ImportError:
        print("jsonschema not importable here; wrote MANIFEST.json unchecked")


if __name__ == "__main__":
    main()
