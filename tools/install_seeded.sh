#!/bin/bash
# usage: install_seeded.sh <prop> <suffix> "<needs>" — copies a confirmed seeded change from /tmp/mut/<p>-<s>/_out to /verif/seeded/<PROP>-<s>/
P=$1; S=$2; NEEDS=$3; p=$(echo $P | tr A-Z a-z); OUT=/tmp/mut/$p-$S/_out; D=/verif/seeded/$P-$S
mkdir -p $D && cp -r $OUT/* $D/ && rm -rf $D/foreign
python3 - "$P" "$S" "$NEEDS" <<'PY'
import json,sys
P,S,needs=sys.argv[1:4]
d=f"/verif/seeded/{P}-{S}"
meta={"property":P,"id":f"{P}-{S}","needs_to_manifest":needs,
 "confirmed":"tools/confirm_seeded.sh: patch applies on the clean tree, demo passes without / fails with the change, the 45 offline tests pass with it",
 "demo_cmd":open(d+"/demo_cmd.txt").read().strip(),"caught_by":[], "ran":[]}
json.dump(meta,open(d+"/meta.json","w"),indent=1)
PY
echo installed $D
