#!/bin/bash
# usage: try_seeded.sh <seeded-dir> [PROP ...]   — apply /verif/seeded/<dir>/patch.diff to /repo, run the quick checks of the
# given properties (default: the property in meta.json), print verdict lines, and ALWAYS undo the patch.
set -u
D=/verif/seeded/$1; shift
[ -f "$D/patch.diff" ] || { echo "no $D/patch.diff"; exit 2; }
PROPS="$@"
[ -n "$PROPS" ] || PROPS=$(python3 -c "import json;print(json.load(open('$D/meta.json'))['property'])")
cd /repo && git status --short | grep -v '^??' | grep . && { echo "/repo not clean"; exit 2; }
git -C /repo apply "$D/patch.diff" || { echo "patch does not apply"; exit 2; }
trap 'git -C /repo checkout -- . ' EXIT
for P in $PROPS; do
  cp /verif/evidence/$P.json /tmp/evidence-$P.keep 2>/dev/null
  cd /verif && ./check $P quick 2>&1 | grep "^property\|^VIOLATION\|  what\|INCONCL\|BUILD" | cut -c1-260
  echo "exit=$? prop=$P seeded=$(basename $D)"
  # evidence written while a seeded change was applied is not evidence about /repo: put the previous file back
  [ -f /tmp/evidence-$P.keep ] && mv /tmp/evidence-$P.keep /verif/evidence/$P.json
done
