#!/usr/bin/env python3
"""record_seeded.py <seeded-id> <PROP> <caught|missed> "<keys or note>"  — appends a run record to /verif/seeded/<id>/meta.json"""
import json,sys
sid,prop,res,note=sys.argv[1:5]
p=f"/verif/seeded/{sid}/meta.json"
m=json.load(open(p))
m["ran"].append({"check":f"./check {prop} quick (patch applied to /repo, then reverted)","result":res,"detail":note})
if res=="caught" and prop not in m["caught_by"]: m["caught_by"].append(prop)
json.dump(m,open(p,"w"),indent=1)
print("recorded",sid,prop,res)
