#!/bin/bash
# Runs the repository's pinned baseline (BASELINE.json: go test ./... in the root module) with the
# `verif` build tag OFF and checks that all stable_pass tests still pass.
TC=/root/go/pkg/mod/golang.org/toolchain@v0.0.1-go1.26.6.linux-amd64/bin
if [ -d "$TC" ]; then export PATH=$TC:$PATH GOTOOLCHAIN=local; fi
export GOFLAGS=-mod=mod GOPROXY=off GOSUMDB=off
OUT=${1:-/tmp/verif-baseline.$$.json}
cd /repo && go test -mod=mod -json -vet=off -count=1 -timeout 25m ./... > "$OUT" 2>/dev/null
python3 - "$OUT" <<'PY'
import json,sys
base=json.load(open('/root/.vp/BASELINE.json'))
want=set(base['stable_pass'])
status={}
for line in open(sys.argv[1], errors='replace'):
    try: e=json.loads(line)
    except Exception: continue
    if e.get('Test') and e.get('Action') in ('pass','fail','skip'):
        status[e['Package']+'::'+e['Test']]=e['Action']
bad=[t for t in sorted(want) if status.get(t)!='pass']
print(f"baseline (guard off): {len(want)-len(bad)}/{len(want)} stable tests pass")
for t in bad: print("NOT PASSING:",t,status.get(t))
sys.exit(1 if bad else 0)
PY
rc=$?
rm -f "$OUT"
exit $rc
