#!/usr/bin/env python3
"""Rewrites DESIGN.md §8.5 from /verif/seeded/*/meta.json."""
import glob, json, re
rows = []
for m in sorted(glob.glob('/verif/seeded/*/meta.json')):
    d = json.load(open(m))
    ran = d.get('ran') or []
    last = ran[-1] if ran else {}
    det = last.get('detail', '')
    first_try = 'after strengthening' if ('missed at first' in det or 'after strengthening' in det or 'strengthen' in det) else 'as built'
    if d.get('outside_statement'):
        last = dict(last); last['result'] = 'not counted (outside the statement)'
    rows.append('| %s | %s | %s | %s | %s |' % (d['id'], d.get('needs_to_manifest', '').replace('|', '/'), ', '.join(d.get('caught_by') or []) or '—',
                                           last.get('result', 'not run'), (first_try + ': ' + last.get('detail', '')).replace('|', '/')))
table = '''### 8.5 Seeded changes (independent sub-agents)
Each change was written by a fresh sub-agent that saw only the property text and its own scratch worktree of /repo
(nothing from /verif), confirmed by me (`tools/confirm_seeded.sh`: the demonstration passes without and fails with the
change, `go build ./...` and the 45 offline tests pass with it), kept under `/verif/seeded/<id>/` (patch.diff,
demonstration, meta.json) and tried with `tools/try_seeded.sh <id>` (apply to /repo, run the property's quick check,
`git checkout -- .`). None is committed in /repo. A change that was missed led to a strengthened workload or monitor
(never to a looser oracle); the strengthened check was re-run silently on the unchanged tree at seeds 1-3.

| id | needs to manifest | caught by | result | how |
|---|---|---|---|---|
''' + '\n'.join(rows) + '\n'
p = '/verif/DESIGN.md'
s = open(p).read()
i = s.index('### 8.5 Seeded changes')
s = s[:i] + table
open(p, 'w').write(s)
print(len(rows), 'rows')
