#!/bin/bash
# usage: regress_seeded.sh  — re-tries every counted seeded change against the current checks (sequentially; applies each patch to /repo and
# reverts it) and writes /verif/seeded/REGRESSION.txt: one line per change "id property caught|MISSED violation-keys wall".
OUT=/verif/seeded/REGRESSION.txt
: > $OUT.tmp
for d in /verif/seeded/*/; do
  id=$(basename $d)
  python3 -c "import json,sys; m=json.load(open('$d/meta.json')); sys.exit(1 if m.get('outside_statement') else 0)" || { echo "$id - not-counted(outside-statement)" >> $OUT.tmp; continue; }
  P=$(python3 -c "import json;print(json.load(open('$d/meta.json'))['property'])")
  res=$(/verif/tools/try_seeded.sh $id 2>&1)
  n=$(echo "$res" | grep -c '^VIOLATION')
  wall=$(echo "$res" | grep '^property' | sed 's/.*wall=//')
  if [ "$n" -gt 0 ]; then echo "$id $P caught $n $wall" >> $OUT.tmp; else echo "$id $P MISSED 0 $wall" >> $OUT.tmp; fi
done
mv $OUT.tmp $OUT
git -C /repo status --short | grep -v '^??' | head -3 >> $OUT
echo DONE >> $OUT
